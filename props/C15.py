"""C15 - level iteration yields every box exactly once, whatever the schedule."""
import z3
from pyvc.vals import *  # noqa
from pyvc.task import Task
from pyvc.vc import veq
from pyvc.loops import LoopSpec
from pyvc.libfile import RFile, f_size
from contracts.ondisk import DiskFile
from props.C01 import Reader, ASSUMPTIONS as A01, TRUSTED as T01

PC = "amr_kitchen.plotfile_cooker."
ASSUMPTIONS = A01 + [
    "each binary file is exactly the concatenation of its FABs (OnDisk): ghost position function P(j), P(0)=0, "
    "P(m)=size; instantiated at the loop counter",
    "exactly-once across files follows from OnDisk (each box's FAB lies in exactly one file): spec-level lemma",
    "LevelDataIterator: the per-call contract of __next__ over the abstract state (file f, p consumed) is proved; that "
    "successive calls enumerate the concatenation is the (spec-level) induction over that state machine",
    "every binary file named by a level header holds at least one FAB (NBF >= 1)",
    "pool lifetime (assumed contract of CPython's multiprocessing.pool, observed on 3.12.1, not derived): a pool referenced by "
    "nothing but its own imap iterator is finalised from one of its handler threads and next() can then block for ever; "
    "the obligation post.pool-outlives-the-iterator requires a holder (with-block of a generator, attribute); termination "
    "of the pool machinery itself is not proved, the run-time layer consumes every on-demand iterator under a watchdog",
]
TRUSTED = T01 + ["multiprocessing.Pool.imap yields f(x) for x in xs in submission order (pool contract, assumed)",
                 "numpy: np.unique(x) is a duplicate-free enumeration of the values of x"]


class Scanner(Reader):
    """mp_read_bfile_*: sequential scan of one OnDisk file; result = list of the selected components of every FAB in
    on-disk order; the loop stops exactly at end of file."""
    prop = "C15"

    def __init__(self, fn, nd, form):
        Reader.__init__(self, fn, nd, form)
        self.name = f"{fn}[nd={nd},{form}]"

    def expected(self, inp, j):
        fab = inp["disk"].fab(j)
        cnt, sel = inp["cnt"], inp["sel"]
        if cnt is None:
            return NDArray(list(fab.shape), lambda idx: fab.value(idx, sel(None)))
        return NDArray(list(fab.shape) + [cnt], lambda idx: fab.value(idx[:-1], sel(idx[-1])))

    def setup(self, ex):
        ctx = ex.ctx
        ctx.ghost["ndims"] = self.nd
        disk = DiskFile(ctx, "F", self.nd, canonical=False)
        farg, cnt, sel, _ = self.selector(ctx, disk.nc)
        inp = {"args": [(disk.path, farg)], "disk": disk, "cnt": cnt, "sel": sel}
        task = self

        def template(ex, fr, k, entry):
            k3 = to_z3(k)
            bf = RFile(disk.path, disk.F)
            bf.pos = disk.P(k3)
            return {
                "file_data": SymSeq(k, lambda i: task.expected(inp, i)),
                "bf": bf,
                "__assume__": [z3.And(k3 >= 0, k3 <= disk.m), disk.facts(k3)],
                "__assert__": [("in-range", k3 <= disk.m)],
            }
        self.loopspecs = {(self.qual, 0): LoopSpec(template)}
        return inp

    def post(self, ex, inp, out):
        ctx = ex.ctx
        ctx.oblige("raises-nothing", out.kind == "ret", "P", note=str(out.exc) if out.kind != "ret" else "")
        if out.kind != "ret":
            return
        disk = inp["disk"]
        exp = SymSeq(disk.m, lambda i: self.expected(inp, i))
        v = out.value
        if not isinstance(v, (SymSeq, list)):
            ctx.oblige("post.all-fabs-in-disk-order", False, "P", note="result is not a list")
            return
        ctx.oblige("post.all-fabs-in-disk-order", veq(ctx, v, exp), "P")

    def replay_params(self, model):
        p = Reader.replay_params(self, model)
        p["kind"] = "single_iter"
        return p


def _tasks0(tier):
    out = []
    forms = ["slice:::", "slice:a::", "slice::b:", "slice:a:b:", "slice:a:b:s"]
    for nd in (2, 3):
        out.append(Scanner("mp_read_bfile_single_field", nd, "int"))
        for f in forms:
            out.append(Scanner("mp_read_bfile_slice_field", nd, f))
        for f in ("list1", "list2", "list3") + (("listN",) if tier == "thorough" else ()):
            out.append(Scanner("mp_read_bfile_index_field", nd, f))
    from props.C15_api import api_tasks
    # the selector establishes the scanners' precondition on the field selection (non-negative, increasing indices)
    from props.C01_api import SelectorInit
    sel = [SelectorInit(nf, form) for nf in (1, 3) for form in ("int", "slice", "list1", "list2", "list3", "names")]
    from props.C01_api import StreamIterSel
    sel += [StreamIterSel(f) for f in ("int", "slice", "slice-step", "list2")]      # the on-demand iterator: requested order
    for t in sel:
        t.prop = "C15"
    return out + api_tasks(tier) + sel


def canaries(tier):
    f = "amr_kitchen/plotfile_cooker.py"
    cs = [("bfile single: trailing skip off by one",
           [(f, "bf.seek(np.prod(shape[:-1]) * (shape[-1] - args[1] - 1) * 8, 1)",
             "bf.seek(np.prod(shape[:-1]) * (shape[-1] - args[1]) * 8, 1)")], ["mp_read_bfile_single_field[nd=3,int]"]),
          ("bfile index: trailing skip uses first index",
           [(f, "bf.seek(np.prod(shape[:-1]) * (shape[-1] - args[1][-1] - 1) * 8, 1)",
             "bf.seek(np.prod(shape[:-1]) * (shape[-1] - args[1][0] - 1) * 8, 1)")], ["mp_read_bfile_index_field[nd=3,list2]"])]
    from props.C15_api import api_canaries
    return cs + api_canaries()


SCENARIO_TIMEOUT = 240


def scenarios(tier, seed):
    n = 6 if tier == "quick" else 12
    return [{"kind": "iter_sweep", "seed": seed * 1000 + 50 + i, "ndims": 3 if i % 2 == 0 else 2,
             "nf": [4, 2, 6, 1][i % 4], "nlevels": 1 + i % 2, "nfiles": 1 + i % 4,
             "layout": ["shuffled", "roundrobin", "monotone"][i % 3]} for i in range(n)] + \
        [{"kind": "iter_sweep", "seed": seed * 1000 + 90, "ndims": 3, "nf": 3, "nlevels": 2, "nfiles": 2, "layout": "shuffled", "n0": [9, 8, 8]},
         # far more binary files (and boxes) at a level than any pool has workers or look-ahead: 8 x 8 x 3 = 192 boxes, one file each
         {"kind": "iter_sweep", "seed": seed * 1000 + 91, "ndims": 3, "nf": 2, "nlevels": 1, "nfiles": 192, "layout": "roundrobin",
          "n0": [32, 32, 12], "box": 4, "few_selectors": True}]


def run_scenario(p, wd):
    from harness.rt_reader import run_iter_scenario
    return run_iter_scenario(p, wd)



def tasks(tier):
    # the FAB header parsers / formatter (real bodies on canonical header text): the obligations behind the header contracts
    from props.parsers import parser_tasks
    return _tasks0(tier) + parser_tasks("C15", nds=(2, 3))
