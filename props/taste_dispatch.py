"""Taster.__init__ / taste() / raise_error / __bool__ : loop-free option dispatch and error capture (C03, C04)."""
import z3
from pyvc.vals import *  # noqa
from pyvc.task import Task
from pyvc.exec import LIBS, lib

TA = "amr_kitchen.taste.taste.Taster."
PCK = "amr_kitchen.plotfile_cooker.PlotfileCooker."




class RaiseError(Task):
    """raise_error: clears isgood; raises the given error iff failing mode."""
    reach = "U"
    qual = TA + "raise_error"

    def __init__(self, prop):
        self.prop = prop
        self.name = "Taster.raise_error"

    def setup(self, ex):
        fob = z3.Bool("fail_on_bad")
        self_ = Record("amr_kitchen.taste.taste.Taster", isgood=True, fail_on_bad=fob)
        from pyvc.exec import ExcClass
        return {"self": self_, "args": [ExcClass("TastesBadError"), "message"], "fob": fob}

    def post(self, ex, inp, out):
        ctx = ex.ctx
        ctx.oblige("post.isgood-cleared", inp["self"].attrs["isgood"] is False, "P")
        if out.kind == "exc":
            ctx.oblige("post.raises-only-in-failing-mode", zand(inp["fob"], out.exc.etype == "TastesBadError"), "P")
        else:
            ctx.oblige("post.returns-only-in-non-failing-mode", z3.Not(inp["fob"]), "P")


class Dispatch(Task):
    """Taster.__init__ with every sub-check abstracted to its outcome (pass / reports an error / raises):
       completeness: all pass => returns normally and isgood;  soundness: any error or exception => not isgood, and
       an exception leaves __init__ iff failing mode."""
    reach = "U"
    qual = TA + "__init__"
    inline = (TA + "taste", TA + "raise_error", TA + "__bool__")

    def __init__(self, prop, binary_data):
        self.prop = prop
        self.bd = binary_data
        self.name = f"Taster.__init__[binary_data={binary_data}]"

    def functions(self):
        return [self.qual, TA + "taste", TA + "__bool__"]

    def setup(self, ex):
        ctx = ex.ctx
        ghost = {"bad": False, "called": []}
        ctx.ghost["taste"] = ghost
        opts = {k: z3.Bool(k) for k in ("binary_headers", "binary_shape", "boxes_coordinates", "nofail")}

        def subcheck(name):
            def c(ex_, args, kw):
                self_ = args[0]
                ghost["called"].append(name)
                o = ex_.ctx.choose(3)
                if o == 0:
                    return None
                ghost["bad"] = True
                if o == 1:      # the sub-check reports an error through raise_error
                    return ex_.call_qual(TA + "raise_error", [LIBS_EXC("TastesBadError"), "msg"], {}, self_obj=self_)
                raise SymRaise("ValueError", f"exception inside {name}")     # e.g. propagated from a pool worker
            return c

        def pck_init(ex_, args, kw):
            self_ = args[0]
            ghost["called"].append(("PlotfileCooker.__init__", kw.get("maxmins"), kw.get("validate_mode")))
            o = ex_.ctx.choose(2)
            if o == 1:
                ghost["bad"] = True
                raise SymRaise("TastesBadError", "header parse failure wrapped by validate_mode")
            self_.attrs.update(limit_level=z3.Int("L"), fields={}, cells=[], pfile=Opaque("plt", "path"))
            return None
        self.contracts = {PCK + "__init__": pck_init,
                          TA + "taste_plotfile_structure": subcheck("structure"),
                          TA + "taste_box_coordinates": subcheck("coordinates"),
                          TA + "taste_binary_headers": subcheck("headers"),
                          TA + "taste_binary_shape": subcheck("shape"),
                          TA + "taste_binary_data": subcheck("data")}
        self_ = Record("amr_kitchen.taste.taste.Taster")
        kw = dict(opts, binary_data=self.bd, verbose=0, limit_level=None)
        return {"self": self_, "args": [Opaque("plt", "path")], "kwargs": kw, "opts": opts, "ghost": ghost}

    def post(self, ex, inp, out):
        ctx = ex.ctx
        gh, opts, self_ = inp["ghost"], inp["opts"], inp["self"]
        isgood = self_.attrs.get("isgood")
        called = [c if isinstance(c, str) else c[0] for c in gh["called"]]
        if not gh["bad"]:
            ctx.oblige("complete.no-error-means-returns", out.kind == "ret", "P", note=str(out.exc))
            ctx.oblige("complete.no-error-means-isgood", isgood is True, "P")
            if out.kind == "ret":
                ctx.oblige("complete.bool-true", ex.truth(self_) is True, "P")
        else:
            ctx.oblige("sound.error-clears-isgood", isgood is False, "P")
            if out.kind == "exc":
                ctx.oblige("sound.raises-only-in-failing-mode", z3.Not(opts["nofail"]), "P")
            else:
                ctx.oblige("sound.returns-only-in-non-failing-mode", opts["nofail"], "P")
                ctx.oblige("sound.bool-false", ex.truth(self_) is False, "P")
        # option wiring: a requested validation really runs (when the reader could be built and nothing raised before)
        if out.kind == "ret" and not gh["bad"]:
            ctx.oblige("wiring.structure-always-checked", "structure" in called, "P")
            for opt, nm in (("binary_headers", "headers"), ("binary_shape", "shape"), ("boxes_coordinates", "coordinates")):
                ctx.oblige(f"wiring.{nm}-runs-iff-requested",
                           to_z3(opts[opt]) == z3.BoolVal(nm in called), "P")
            mm = [c for c in gh["called"] if not isinstance(c, str)]
            ctx.oblige("wiring.reader-in-validate-mode", bool(mm) and mm[0][2] is True and mm[0][1] is self.bd, "P")


def LIBS_EXC(name):
    from pyvc.exec import ExcClass
    return ExcClass(name)


def dispatch_tasks(prop):
    return [RaiseError(prop), Dispatch(prop, False), Dispatch(prop, True)]
