"""C01: the selection layers above the reader kernels - LevelDataSelector.__init__ (field-selector normalisation / refusal),
LevelDataSelector.__getitem__ (level bound), LevelDataStream.__init__ (kernel dispatch) and LevelDataStream.__getitem__ (box
selection forms, order, bounds)."""
import z3
from pyvc.vals import *  # noqa
from pyvc.task import Task
from pyvc.vc import veq
from pyvc.strings import SStr, NameAtom
from spec.fmt import S

PC = "amr_kitchen.plotfile_cooker."
SEL = PC + "LevelDataSelector."
STR = PC + "LevelDataStream."
I = z3.IntSort()


def field_dict(nf):
    names = [Opaque(f"field{i}", "name", distinct_from_literals=True) for i in range(nf)]
    for o in names:
        o.sym = z3.Int(o.name)
    return {S(NameAtom(o)): i for i, o in enumerate(names)}, names


class SelectorInit(Task):
    """After construction `farg` is a selection the readers honour (a non-negative int, a forward slice, a strictly increasing
    list of non-negative ints) denoting exactly the requested fields - or the constructor raised."""
    prop = "C01"
    reach = "U"
    qual = SEL + "__init__"

    def __init__(self, nf, form):
        self.nf, self.form = nf, form
        self.name = f"LevelDataSelector.__init__[nf={nf},{form}]"

    def setup(self, ex):
        ctx = ex.ctx
        fields, names = field_dict(self.nf)
        form = self.form
        spec = {}
        if form == "name":
            farg = S(NameAtom(names[self.nf - 1]))
            spec["ok"], spec["exp"] = True, self.nf - 1
        elif form == "unknown-name":
            o = Opaque("other", "name", distinct_from_literals=True)
            o.sym = z3.Int("other")
            farg = S(NameAtom(o))
            spec["ok"] = False
        elif form == "int":
            k = z3.Int("k")
            farg = k
            spec["ok"] = z3.And(k >= -self.nf, k < self.nf)
            spec["exp"] = z3.If(k < 0, k + self.nf, k)
        elif form == "slice":
            a, b, s = z3.Ints("sa sb ss")
            farg = SSlice(a, b, s)
            spec["ok"] = s >= 1
            spec["exp"] = farg
        elif form == "slice-nostep":
            a, b = z3.Ints("sa sb")
            farg = SSlice(a, b, None)
            spec["ok"], spec["exp"] = True, farg
        elif form.startswith("list"):
            m = int(form[4:])
            items = [z3.Int(f"f{t}") for t in range(m)]
            farg = list(items)
            norm = [z3.If(x < 0, x + self.nf, x) for x in items]
            inr = z3.And(*[z3.And(x >= -self.nf, x < self.nf) for x in items])
            asc = z3.And(*[norm[t] < norm[t + 1] for t in range(m - 1)]) if m > 1 else z3.BoolVal(True)
            spec["ok"] = z3.And(inr, asc)
            spec["exp"] = norm
        elif form == "names":
            farg = [S(NameAtom(names[0])), S(NameAtom(names[self.nf - 1]))] if self.nf > 1 else [S(NameAtom(names[0]))]
            spec["ok"] = True
            spec["exp"] = [0, self.nf - 1] if self.nf > 1 else [0]
        else:
            raise ValueError(form)
        self_ = Record(PC + "LevelDataSelector")
        return {"self": self_, "args": [fields, [], farg, 0], "spec": spec, "self_": self_}

    def post(self, ex, inp, out):
        ctx = ex.ctx
        spec = inp["spec"]
        ok = spec["ok"]
        if out.kind == "exc":
            ctx.oblige("post.raises-only-for-unhonourable-selections", (z3.Not(to_z3(ok)) if is_z3(ok) else (not ok)), "P",
                       note=str(out.exc))
            return
        ctx.oblige("post.returns-only-for-honourable-selections", ok, "P")
        farg = inp["self_"].attrs.get("farg")
        exp = spec.get("exp")
        if isinstance(exp, SSlice):
            ctx.oblige("post.farg-is-the-requested-selection", isinstance(farg, SSlice) and veq(ctx, farg, exp), "P")
        elif isinstance(exp, list):
            ctx.oblige("post.farg-is-the-requested-selection", isinstance(farg, list) and veq(ctx, farg, exp), "P")
            ctx.structure("post.farg-is-a-python-list-of-ints", isinstance(farg, list))
        else:
            ctx.oblige("post.farg-is-the-requested-selection", veq(ctx, farg, exp), "P")
            ctx.oblige("post.farg-is-a-python-int", is_intlike(farg), "P")


class SelectorLevel(Task):
    """LevelDataSelector.__getitem__: a level above the limit is refused; otherwise the stream is built from that level's
    file and offset tables and the normalised field selection."""
    prop = "C01"
    reach = "U"
    qual = SEL + "__getitem__"

    def __init__(self):
        self.name = "LevelDataSelector.__getitem__"

    def setup(self, ex):
        lim, key = z3.Ints("limit key")
        ex.ctx.assume(z3.And(lim >= 0, key >= 0))
        calls = []

        def stream_new(ex_, args, kw):
            calls.append(args)
            return Record(PC + "LevelDataStream", made_from=args)
        self.contracts = {PC + "LevelDataStream.__new__": stream_new}
        FILES = Opaque("files_table", "obj")
        OFFS = Opaque("offsets_table", "obj")

        class Cells:
            def getitem(self, ex_, k):
                return {"files": ("files", k), "offsets": ("offsets", k)}
        self_ = Record(PC + "LevelDataSelector", limit_level=lim, cells=Cells(), farg=z3.Int("farg"))
        return {"self": self_, "args": [key], "lim": lim, "key": key, "calls": calls}

    def post(self, ex, inp, out):
        ctx = ex.ctx
        lim, key = inp["lim"], inp["key"]
        if out.kind == "exc":
            ctx.oblige("post.refuses-only-above-the-limit", zand(key > lim, out.exc.etype == "ValueError"), "P")
            return
        ctx.oblige("post.accepts-only-up-to-the-limit", key <= lim, "P")
        c = inp["calls"]
        ok = len(c) == 1 and c[0][0][0] == "files" and c[0][1][0] == "offsets"
        ctx.oblige("post.stream-built-from-that-level", ok and veq(ctx, c[0][0][1], key) and veq(ctx, c[0][1][1], key), "P")
        ctx.oblige("post.stream-gets-the-field-selection", ok and veq(ctx, c[0][2], inp["self"].attrs["farg"]), "P")


def _mint(model, n, d=None):
    try:
        return int(str(model.get(n, d)))
    except (TypeError, ValueError):
        return d


def _selector_replay(self, model):
    """the solver's field selection on a real one-box plotfile with nf fields (run-time contract of the reader)"""
    nf, form = self.nf, self.form
    clamp = lambda v: max(-nf - 2, min(nf + 2, v if v is not None else 0))
    if form == "int":
        fsel = ["int", clamp(_mint(model, "k", 0))]
    elif form == "slice":
        fsel = ["slice", _mint(model, "sa"), _mint(model, "sb"), _mint(model, "ss", 1)]
    elif form == "slice-nostep":
        fsel = ["slice", _mint(model, "sa"), _mint(model, "sb"), None]
    elif form.startswith("list"):
        fsel = ["list"] + [clamp(_mint(model, f"f{t}", t)) for t in range(int(form[4:]))]
    elif form == "name":
        fsel = ["name", f"f{nf - 1}"]
    elif form == "unknown-name":
        fsel = ["name", "no_such_field"]
    else:
        return None
    return {"kind": "single_iter" if self.prop == "C15" else "single", "ndims": 3, "nf": nf, "box": [4, 3, 2], "fsel": fsel, "seed": 7}


SelectorInit.replay_params = _selector_replay


class StreamInit(Task):
    """LevelDataStream.__init__: the reader kernel matches the kind of field selection."""
    prop = "C01"
    reach = "U"
    qual = STR + "__init__"

    def __init__(self, kind):
        self.kind = kind
        self.name = f"LevelDataStream.__init__[{kind}]"

    def setup(self, ex):
        farg = {"int": z3.Int("k"), "slice": SSlice(z3.Int("a"), None, None), "list": [z3.Int("f0"), z3.Int("f1")]}[self.kind]
        self_ = Record(PC + "LevelDataStream")
        n = z3.Int("n")
        files = SymSeq(n, lambda i: z3.Function("FILE", I, I)(to_z3(i)), "list")
        offs = SymSeq(n, lambda i: z3.Function("OFF", I, I)(to_z3(i)), "list")
        return {"self": self_, "args": [files, offs, farg], "self_": self_}

    def post(self, ex, inp, out):
        ctx = ex.ctx
        ctx.oblige("raises-nothing", out.kind == "ret", "P", note=str(out.exc))
        if out.kind != "ret":
            return
        want = {"int": ("mp_read_box_single_field", "mp_read_bfile_single_field"), "slice": ("mp_read_box_slice_field", "mp_read_bfile_slice_field"),
                "list": ("mp_read_box_index_field", "mp_read_bfile_index_field")}[self.kind]
        a = inp["self_"].attrs
        ctx.oblige("post.box-reader-matches-selector-kind", a.get("read_fun") == FuncVal(PC + want[0]), "P")
        ctx.oblige("post.file-reader-matches-selector-kind", a.get("file_fun") == FuncVal(PC + want[1]), "P")


class ReadVal:
    """spec_read of one box: the value the (proved) reader contract returns for (file, offset, field selection)"""

    def __init__(self, f, o, farg):
        self.f, self.o, self.farg = f, o, farg


def veq_read(ctx, a, b):
    if not isinstance(a, ReadVal) or not isinstance(b, ReadVal):
        return False
    return zand(to_z3(a.f) == to_z3(b.f), to_z3(a.o) == to_z3(b.o), a.farg is b.farg)


class StreamGet(Task):
    """LevelDataStream.__getitem__: for every box-selector form the result is spec_read of the selected boxes, in the requested
    order, with the level's own (file, offset) pairs; out-of-range selections raise."""
    prop = "C01"
    reach = "U"
    qual = STR + "__getitem__"

    def __init__(self, form):
        self.form = form
        self.name = f"LevelDataStream.__getitem__[{form}]"

    def setup(self, ex):
        ctx = ex.ctx
        n = z3.Int("n")
        ctx.assume(n >= 1)
        FILE, OFF = z3.Function("FILE", I, I), z3.Function("OFF", I, I)
        farg = Opaque("farg", "obj")

        def reader(ex_, args, kw):
            t = args[0]
            items = ex_.as_iterable(t)
            return ReadVal(items[0], items[1], items[2])
        self.contracts = {PC + "read_fun_contract": reader}
        fn = FuncVal(PC + "mp_read_box_single_field")
        self.contracts[PC + "mp_read_box_single_field"] = reader
        self_ = Record(PC + "LevelDataStream", bfiles=NDArray([n], lambda ix: FILE(to_z3(ix[0])), "int"),
                       offsets=NDArray([n], lambda ix: OFF(to_z3(ix[0])), "int"), size=n, farg=farg, read_fun=fn)
        form = self.form
        if form == "int":
            idx = z3.Int("b")
        elif form == "slice":
            idx = SSlice(z3.Int("sa"), z3.Int("sb"), None)
        elif form == "slice-step":
            idx = SSlice(None, None, z3.Int("ss"))
            ctx.assume(z3.Int("ss") >= 1)
        elif form.startswith("list"):
            m = int(form[4:])
            idx = [z3.Int(f"b{t}") for t in range(m)]
        else:
            raise ValueError(form)
        return {"self": self_, "args": [idx], "n": n, "FILE": FILE, "OFF": OFF, "farg": farg, "idx": idx}

    def post(self, ex, inp, out):
        ctx = ex.ctx
        n, FILE, OFF, farg, idx = inp["n"], inp["FILE"], inp["OFF"], inp["farg"], inp["idx"]
        form = self.form

        def rd(b):
            return ReadVal(FILE(to_z3(b)), OFF(to_z3(b)), farg)
        if form == "int":
            inr = z3.And(idx >= -n, idx < n)
            if out.kind == "exc":
                ctx.oblige("post.raises-only-out-of-range", zand(z3.Not(inr), out.exc.etype == "IndexError"), "P")
                return
            ctx.oblige("post.returns-only-in-range", inr, "P")
            ctx.oblige("post.the-selected-box", veq_read(ctx, out.value, rd(z3.If(idx < 0, idx + n, idx))), "P")
            return
        if form.startswith("list"):
            inr = z3.And(*[z3.And(b >= -n, b < n) for b in idx])
            if out.kind == "exc":
                ctx.oblige("post.raises-only-out-of-range", zand(z3.Not(inr), out.exc.etype == "IndexError"), "P")
                return
            ctx.oblige("post.returns-only-in-range", inr, "P")
            v = out.value
            ok = isinstance(v, list) and len(v) == len(idx)
            ctx.oblige("post.one-result-per-requested-box", ok, "P")
            if ok:
                for t, b in enumerate(idx):
                    ctx.oblige(f"post.requested-order[{t}]", veq_read(ctx, v[t], rd(z3.If(b < 0, b + n, b))), "P")
            return
        # slices
        ctx.oblige("raises-nothing", out.kind == "ret", "P", note=str(out.exc))
        if out.kind != "ret":
            return
        st, en, stp = slice_indices(idx, n)
        cnt = slice_len(st, en, stp)
        v = out.value
        ok = isinstance(v, (SymSeq, list))
        ctx.oblige("post.result-is-a-list", ok, "P")
        if ok:
            ln = v.length if isinstance(v, SymSeq) else len(v)
            ctx.oblige("post.one-result-per-selected-box", to_z3(ln) == to_z3(cnt), "P")
            t = ctx.fresh("t")
            ctx.add_pc(z3.And(t >= 0, t < to_z3(cnt), to_z3(ln) == to_z3(cnt)))     # an arbitrary position of the (right-sized) result
            got = v.get(t, ex) if isinstance(v, SymSeq) else None
            if got is not None:
                ctx.oblige("post.requested-order", z3.Implies(z3.And(t >= 0, t < to_z3(cnt)),
                                                             to_z3(veq_read(ctx, got, rd(st + t * stp)))), "P")


def _stream_replay(self, model):
    """the solver's box selection on a real plotfile with n boxes in a row (n capped), through __getitem__ or iter"""
    n = max(1, min(9, _mint(model, "n", 3) or 3))
    cl = lambda v: max(-n - 2, min(n + 2, v if v is not None else 0))
    form = self.form
    if form == "int":
        bsel = ["int", cl(_mint(model, "b", 0))]
    elif form == "slice":
        bsel = ["slice", _mint(model, "sa"), _mint(model, "sb"), None]
    elif form == "slice-step":
        bsel = ["slice", None, None, max(1, min(n + 1, _mint(model, "ss", 1) or 1))]
    elif form.startswith("list"):
        bsel = ["list"] + [cl(_mint(model, f"b{t}", t)) for t in range(int(form[4:]))]
    else:
        return None
    return {"kind": "stream_sel", "n": n, "bsel": bsel, "via": "iter" if self.qual.endswith(".iter") else "getitem", "seed": 11}


StreamGet.replay_params = _stream_replay


class StreamIterSel(StreamGet):
    """LevelDataStream.iter (the on-demand iterator): the same selection semantics as __getitem__, the results handed back
    through the pool's ordered iterator - the selected boxes in the requested order."""
    qual = STR + "iter"
    inline = (PC + "pool_imap",)        # the generator that owns the pool: its real body, run as part of iter

    def __init__(self, form):
        StreamGet.__init__(self, form)
        self.name = f"LevelDataStream.iter[{form}]"

    def post(self, ex, inp, out):
        if out.kind == "ret" and isinstance(out.value, SeqIter):
            ex.ctx.oblige("post.iterator-starts-at-the-first-selected-box", veq(ex.ctx, out.value.pos, 0), "P")
            # pool contract (CPython 3.12, observed): a pool that nothing but its imap iterator references is finalised from one
            # of its own handler threads - always for an empty task list, and whenever every result is back before the task
            # handler reports the length (seen 2 in 1000 runs for two small boxes): next() then blocks for ever.  An iterator
            # handed out must come with a pool that something else keeps referenced (a with-block in a generator frame).
            pool = getattr(out.value, "pool", None)
            if self.prop == "C15" and pool is not None and getattr(pool, "created_here", False):
                ex.ctx.oblige("post.pool-outlives-the-iterator", bool(getattr(pool, "held", False)), "P",
                              note="imap iterator returned while its pool is a dead local: next() can block for ever")
            out.value = out.value.seq        # what the iterator yields, in order
        StreamGet.post(self, ex, inp, out)


class CookerGetitem(Task):
    """PlotfileCooker.__getitem__: the selector gets the cooker's own field table, cell tables, level limit, boxes, cell sizes and
    domain origin, and the key unchanged."""
    prop = "C01"
    reach = "U"
    qual = PC + "PlotfileCooker.__getitem__"

    def __init__(self):
        self.name = "PlotfileCooker.__getitem__"

    def setup(self, ex):
        calls = []

        def ctor(ex_, args, kw):
            calls.append((list(args), dict(kw)))
            return Record(PC + "LevelDataSelector")
        self.contracts = {PC + "LevelDataSelector.__new__": ctor}
        at = {k: Opaque(k, "obj") for k in ("fields", "cells", "boxes", "dx")}
        glo = [z3.Real(f"glo{d}") for d in range(3)]
        L = z3.Int("L")
        key = Opaque("key", "obj")
        self_ = Record(PC + "PlotfileCooker", limit_level=L, geo_low=list(glo), **at)
        return {"self": self_, "args": [key], "calls": calls, "at": at, "glo": glo, "L": L, "key": key}

    def post(self, ex, inp, out):
        ctx = ex.ctx
        ctx.oblige("raises-nothing", out.kind == "ret", "P", note=str(out.exc) if out.kind != "ret" else "")
        if out.kind != "ret":
            return
        c = inp["calls"]
        ok = len(c) == 1 and len(c[0][0]) + len(c[0][1]) == 7
        ctx.structure("post.one-selector-built-with-seven-arguments", ok)
        if not ok:
            return
        a = c[0][0]
        names = ["fields", "cells", "field_arg", "limit_level", "boxes", "dx", "geo_low"]
        got = dict(zip(names, a))
        got.update(c[0][1])
        at = inp["at"]
        ctx.oblige("post.own-field-and-cell-tables", got.get("fields") is at["fields"] and got.get("cells") is at["cells"], "P")
        ctx.oblige("post.key-unchanged", got.get("field_arg") is inp["key"], "P")
        ctx.oblige("post.level-limit", veq(ctx, got.get("limit_level"), inp["L"]), "P")
        ctx.oblige("post.boxes-and-cell-sizes", got.get("boxes") is at["boxes"] and got.get("dx") is at["dx"], "P")
        ctx.oblige("post.domain-origin", veq(ctx, list(ex.as_iterable(got.get("geo_low"))), inp["glo"]), "P")


def api_tasks(tier):
    out = []
    for nf in (1, 3):
        for form in ("name", "unknown-name", "int", "slice", "slice-nostep", "list1", "list2", "list3", "names"):
            out.append(SelectorInit(nf, form))
    out.append(SelectorLevel())
    out += [StreamInit(k) for k in ("int", "slice", "list")]
    out += [StreamGet(f) for f in ("int", "slice", "slice-step", "list1", "list2")]
    out += [StreamIterSel(f) for f in ("int", "slice", "slice-step", "list2")]
    out.append(CookerGetitem())
    return out


def api_canaries():
    f = "amr_kitchen/plotfile_cooker.py"
    return [("selector: non-increasing lists no longer refused",
             [(f, "            if np.any(np.diff(field_ids) <= 0):", "            if np.any(np.diff(field_ids) < 0):")],
             ["LevelDataSelector.__init__[nf=3,list2]"]),
            ("stream: offsets taken with another selector than files",
             [(f, "            return self.read_fun((self.bfiles[idx],\n                                  self.offsets[idx],\n                                  self.farg))\n        elif isinstance(idx, slice):\n            slice_size = len(range(*idx.indices(self.size)))\n            pool = multiprocessing.Pool()\n            return pool.map(",
               "            return self.read_fun((self.bfiles[idx],\n                                  self.offsets[idx - 1],\n                                  self.farg))\n        elif isinstance(idx, slice):\n            slice_size = len(range(*idx.indices(self.size)))\n            pool = multiprocessing.Pool()\n            return pool.map(")],
             ["LevelDataStream.__getitem__[int]"])]
