"""pestle.volume_integral, the covering mask of one coarse box (C09): a coarse cell is integrated at its own level exactly when
no box of the next level covers it.  Fragment of the inner loop body, mechanically extracted; the occupancy map
(PlotfileCooker.box_arrays) enters through its contract."""
import ast
import z3
from pyvc.vals import *  # noqa
from pyvc.task import FragmentTask, Task
from pyvc.vc import veq

PE = "amr_kitchen.pestle.pestle."
I = z3.IntSort()


def _src(pattern):
    return lambda s: pattern in ast.unparse(s).split("\n")[0]


def expand3_contract(ex, args, kw):
    """contract of utils.expand_array3d (proved by the task 'expand_array3d' of C10): out[x,y,z] = arr[x//f, y//f, z//f]"""
    arr, f = args
    from pyvc.ops import as_ndarray
    a = as_ndarray(arr)
    e, _ = a.snapshot()
    f3 = to_z3(f)
    ex.ctx.check_or_raise(f3 >= 0, "ValueError", "negative repeat count")
    sh = [ex.ctx.define(to_z3(n) * f3, "ext") for n in a.shape]
    return NDArray(sh, lambda ix: e(tuple(ex.ctx.quot(to_z3(i), f3)[0] for i in ix)), a.dtype)


class CoveringMask(FragmentTask):
    """For a coarse box [lo, hi] of level lv, the occupancy map BA of level lv+1 (cells of g fine cells per side; BA == -1 where no
    fine box lies) and box bounds aligned to the map (g divides 2*lo and 2*(hi+1); g even - AMReX blocking factors; g is a
    skeleton parameter of the task, the box, the map size and its contents are unbounded):
        mask has the shape of the box, and mask[m] holds exactly when BA is -1 at the map cell that contains the fine cells
        2*(lo+m), 2*(lo+m)+1 refining coarse cell lo+m
    i.e. the coarse cell is counted at level lv iff the next level does not cover it."""
    prop = "C09"
    reach = "S"
    qual = PE + "volume_integral"
    first = staticmethod(_src("barr_starts = "))
    last = staticmethod(_src("mask[next_lv_map"))

    def __init__(self, g):
        self.g = g
        self.name = f"volume_integral.covering-mask-of-a-box[g={g}]"

    def setup(self, ex):
        ctx = ex.ctx
        lo = [z3.Int(f"lo{d}") for d in range(3)]
        hi = [z3.Int(f"hi{d}") for d in range(3)]
        A = [z3.Int(f"A{d}") for d in range(3)]
        g = self.g        # map resolution: a skeleton parameter (even); everything else is symbolic
        BS = [z3.Int(f"bs{d}") for d in range(3)]      # ghost: 2*lo = bs*g, 2*(hi+1) = be1*g
        BE = [z3.Int(f"be1_{d}") for d in range(3)]
        for d in range(3):
            ctx.assume(z3.And(lo[d] >= 0, hi[d] >= lo[d], A[d] >= 1))
            ctx.assume(z3.And(2 * lo[d] == BS[d] * g, 2 * (hi[d] + 1) == BE[d] * g, BE[d] <= A[d]))
        BA = z3.Function("BA", I, I, I, I)
        L, lv = z3.Ints("L lv")
        ctx.assume(z3.And(lv >= 0, lv < L))
        barr = NDArray(list(A), lambda ix: BA(*[to_z3(i) for i in ix]), "int")
        pck = Record("amr_kitchen.plotfile_cooker.PlotfileCooker", box_arrays=SymSeq(L + 1, lambda l: barr))
        self.contracts = {"amr_kitchen.utils.expand_array3d": expand3_contract}
        frame = {"pck": pck, "lv": lv, "indices": [Vec(lo, "array"), Vec(hi, "array")], "next_lv_factors": Vec([g, g, g], "array"),
                 "lv_masks": []}
        return {"frame": frame, "lo": lo, "hi": hi, "g": g, "BA": BA}

    def post(self, ex, inp, out):
        ctx = ex.ctx
        ctx.oblige("raises-nothing", out.kind == "ret", "P", note=str(out.exc) if out.kind != "ret" else "")
        if out.kind != "ret":
            return
        mask = out.value.get("mask")
        ok = isinstance(mask, NDArray) and mask.ndim == 3
        ctx.structure("post.mask-is-a-3d-array", ok)
        if not ok:
            return
        lo, hi, g, BA = inp["lo"], inp["hi"], inp["g"], inp["BA"]
        for d in range(3):
            ctx.oblige(f"post.mask-has-the-shape-of-the-box[{d}]", to_z3(mask.shape[d]) == hi[d] - lo[d] + 1, "P")
        m = [ctx.fresh(f"m{d}") for d in range(3)]
        ctx.add_pc(z3.And(*[z3.And(m[d] >= 0, m[d] <= hi[d] - lo[d]) for d in range(3)]))
        cell = [ctx.quot(2 * (lo[d] + m[d]), g)[0] for d in range(3)]
        val = mask.elem(tuple(m))
        ctx.oblige("post.cell-counted-iff-the-next-level-does-not-cover-it", to_z3(val) == (BA(*cell) == -1), "P")


class OccupancyMap(FragmentTask):
    """compute_box_array, the loop painting the boxes of one level into the level's occupancy map (cells of g x g x g level
    cells).  With box bounds aligned to the map (g divides lo and hi+1 of every box - g is the gcd of all box bounds) after the
    loop, for every map cell q and every level cell c inside q:
        map[q] == -1   =>  no box of the level contains c
        map[q] == i    =>  i is a box of the level and contains c
    and the recorded map index range of box i is [lo_i // g, hi_i // g].  g is a skeleton parameter; the number of boxes,
    their bounds and the map size are unbounded."""
    prop = "C09"
    reach = "S"
    qual = "amr_kitchen.plotfile_cooker.PlotfileCooker.compute_box_array"
    first = staticmethod(lambda s: isinstance(s, ast.For) and "enumerate(self.cells[lv]['indexes'])" in ast.unparse(s.iter))
    last = first

    def __init__(self, g):
        self.g = g
        self.name = f"compute_box_array.level-loop[g={g}]"

    def setup(self, ex):
        from pyvc.loops import LoopSpec
        ctx = ex.ctx
        g = self.g
        n = z3.Int("nboxes")
        ctx.assume(n >= 0)
        LO, HI = z3.Function("LO", I, I, I), z3.Function("HI", I, I, I)
        A = [z3.Int(f"A{d}") for d in range(3)]
        for d in range(3):
            ctx.assume(A[d] >= 1)
        W = z3.Function("W", I, I, I, I, I)        # ghost: map value at q after k boxes
        t = z3.Int("t_")
        q = [z3.Int(f"q{d}_") for d in range(3)]
        # boxes: inside the level grid (A*g cells per side), aligned to the map
        a_lo, a_hi1 = z3.Function("ALO", I, I, I), z3.Function("AHI1", I, I, I)
        ctx.assume(z3.ForAll([t], z3.Implies(z3.And(t >= 0, t < n), z3.And(*[z3.And(
            LO(t, d) == g * a_lo(t, d), HI(t, d) + 1 == g * a_hi1(t, d), a_lo(t, d) >= 0, a_lo(t, d) < a_hi1(t, d), a_hi1(t, d) <= A[d])
            for d in range(3)])), patterns=[LO(t, 0)]))
        inrange = lambda i, qq: z3.And(*[z3.And(a_lo(i, d) <= qq[d], qq[d] < a_hi1(i, d)) for d in range(3)])
        inmap = lambda qq: z3.And(*[z3.And(qq[d] >= 0, qq[d] < A[d]) for d in range(3)])
        cells = SymSeq(1, lambda l: {"indexes": SymSeq(n, lambda i: [Vec([LO(to_z3(i), d) for d in range(3)], "array"),
                                                                      Vec([HI(to_z3(i), d) for d in range(3)], "array")])})
        self_ = Record("amr_kitchen.plotfile_cooker.PlotfileCooker", cells=cells)
        ctx.assume(z3.ForAll(q, W(0, *q) == -1, patterns=[W(0, *q)]))

        def template(ex_, fr, k, entry):
            k3 = to_z3(k)
            step = z3.ForAll(q, W(k3 + 1, *q) == z3.If(inrange(k3, q), k3, W(k3, *q)), patterns=[W(k3 + 1, *q)])
            inv = z3.ForAll(q, z3.Implies(inmap(q), z3.And(
                z3.Or(W(k3, *q) == -1, z3.And(W(k3, *q) >= 0, W(k3, *q) < k3, inrange(W(k3, *q), q))))), patterns=[W(k3, *q)])
            inv2 = z3.ForAll(q + [t], z3.Implies(z3.And(inmap(q), t >= 0, t < k3, inrange(t, q)), W(k3, *q) != -1),
                             patterns=[z3.MultiPattern(W(k3, *q), a_lo(t, 0))])
            return {"box_array": NDArray(list(A), lambda ix: W(k3, *[to_z3(i) for i in ix]), "int"),
                    "lv_barray_indices": SymSeq(k3, lambda i: [Vec([a_lo(to_z3(i), d) for d in range(3)], "array"),
                                                               Vec([a_hi1(to_z3(i), d) - 1 for d in range(3)], "array")]),
                    "__assume__": [z3.And(k3 >= 0, k3 <= n), step, inv, inv2],
                    "__assert__": [("in-range", k3 <= n), ("map-values-are-covering-boxes", inv), ("covered-cells-are-marked", inv2)]}
        self.loopspecs = {(self.qual, 3): LoopSpec(template)}
        frame = {"self": self_, "lv": 0, "box_rez": g, "box_array": NDArray(list(A), lambda ix: z3.IntVal(-1), "int"),
                 "lv_barray_indices": []}
        return {"frame": frame, "n": n, "W": W, "LO": LO, "HI": HI, "A": A, "a_lo": a_lo, "a_hi1": a_hi1}

    def post(self, ex, inp, out):
        ctx = ex.ctx
        ctx.oblige("raises-nothing", out.kind == "ret", "P", note=str(out.exc) if out.kind != "ret" else "")
        if out.kind != "ret":
            return
        g, n, W, LO, HI, A = self.g, inp["n"], inp["W"], inp["LO"], inp["HI"], inp["A"]
        ba = out.value.get("box_array")
        ok = isinstance(ba, NDArray) and ba.ndim == 3
        ctx.structure("post.map-is-a-3d-array", ok)
        if not ok:
            return
        qq = [ctx.fresh(f"q{d}") for d in range(3)]
        r = [ctx.fresh(f"r{d}") for d in range(3)]
        i = ctx.fresh("i")
        ctx.add_pc(z3.And(*[z3.And(qq[d] >= 0, qq[d] < A[d], r[d] >= 0, r[d] < g) for d in range(3)]))
        c = [g * qq[d] + r[d] for d in range(3)]
        contains = lambda b: z3.And(*[z3.And(LO(b, d) <= c[d], c[d] <= HI(b, d)) for d in range(3)])
        v = to_z3(ba.elem(tuple(qq)))
        ctx.oblige("post.unmarked-map-cell-holds-no-cell-of-any-box", z3.Implies(z3.And(v == -1, i >= 0, i < n), z3.Not(contains(i))), "P")
        ctx.oblige("post.marked-map-cell-lies-inside-the-box-it-names", z3.Implies(v != -1, z3.And(v >= 0, v < n, contains(v))), "P")
        idx = out.value.get("lv_barray_indices")
        ctx.oblige("post.recorded-map-range-of-every-box", isinstance(idx, SymSeq) and veq(ctx, idx.length, n), "P")


class MapResolution(FragmentTask):
    """compute_box_array, the statements choosing the map resolution: the value divides the lower bound and the (exclusive)
    upper bound of EVERY box of EVERY level - the alignment the occupancy map and the covering masks rely on.  Skeleton: two
    levels with 1 and 2 boxes, symbolic bounds; np.gcd.reduce by its contract (divides every entry)."""
    prop = "C09"
    reach = "S"
    qual = "amr_kitchen.plotfile_cooker.PlotfileCooker.compute_box_array"
    first = staticmethod(lambda s: isinstance(s, (ast.Assign, ast.For)) and ("box_bounds" in ast.unparse(s).split("\n")[0] or "box_rez" in ast.unparse(s).split("\n")[0]))
    last = staticmethod(FragmentTask.assigns("box_rez"))

    def __init__(self):
        self.name = "compute_box_array.map-resolution"

    def setup(self, ex):
        LO = [[[z3.Int(f"lo{lv}_{b}_{d}") for d in range(3)] for b in range(nb)] for lv, nb in enumerate((1, 2))]
        HI = [[[z3.Int(f"hi{lv}_{b}_{d}") for d in range(3)] for b in range(nb)] for lv, nb in enumerate((1, 2))]
        cells = [{"indexes": [[Vec(LO[lv][b], "array"), Vec(HI[lv][b], "array")] for b in range(nb)]} for lv, nb in enumerate((1, 2))]
        self_ = Record("amr_kitchen.plotfile_cooker.PlotfileCooker", cells=cells, limit_level=1)
        self.inline = ("amr_kitchen.plotfile_cooker.PlotfileCooker.unique_box_shapes",)
        return {"frame": {"self": self_}, "LO": LO, "HI": HI}

    def post(self, ex, inp, out):
        ctx = ex.ctx
        ctx.oblige("raises-nothing", out.kind == "ret", "P", note=str(out.exc) if out.kind != "ret" else "")
        if out.kind != "ret":
            return
        g = out.value.get("box_rez")
        ok = g is not None and (is_z3(g) or isinstance(g, int))
        ctx.structure("post.fragment-defines-box_rez", ok)
        if not ok:
            return
        g = to_z3(g)
        ctx.oblige("post.resolution-positive", g >= 1, "P")
        for lv, nb in enumerate((1, 2)):
            for b in range(nb):
                for d in range(3):
                    k1, k2 = ctx.fresh("k"), ctx.fresh("k")
                    ctx.oblige(f"post.divides-the-bounds-of-box-{b}-of-level-{lv}[{d}]",
                               z3.And(z3.Exists([k1], inp["LO"][lv][b][d] == g * k1), z3.Exists([k2], inp["HI"][lv][b][d] + 1 == g * k2)), "P")


class IntegralOrchestration(Task):
    """volume_integral as a whole on a bounded skeleton (real code; three levels, concrete boxes and occupancy maps; workers and
    expand_array3d by contract): the task of box b of level lv < limit gets THAT box's file and offset, THAT level's cell
    volume and the covering mask of box b of level lv (compared cell by cell with the mask computed from the skeleton); the
    finest level is integrated unmasked; the result is the sum of all workers' results."""
    prop = "C09"
    reach = "S"
    qual = PE + "volume_integral"

    def __init__(self, limit, use_volfrac):
        self.limit, self.volfrac = limit, use_volfrac
        self.name = f"volume_integral.orchestration[limit={limit},volfrac={use_volfrac}]"

    # the skeleton: boxes (lo, hi) per level, refinement 2, occupancy maps at resolution g=2 fine cells per map cell
    BOXES = [[((0, 0, 0), (1, 1, 1)), ((2, 0, 0), (3, 1, 1))],
             [((2, 0, 0), (5, 3, 3)), ((0, 0, 0), (1, 3, 3))],
             [((4, 0, 0), (7, 7, 7))]]
    N0 = (4, 2, 2)
    G = 2

    def skeleton(self):
        import numpy as np
        grids = [tuple(n * 2 ** lv for n in self.N0) for lv in range(3)]
        maps = []
        for lv in range(3):
            m = -np.ones(tuple(n // self.G for n in grids[lv]), dtype=int)
            for b, (lo, hi) in enumerate(self.BOXES[lv]):
                m[tuple(slice(l // self.G, h // self.G + 1) for l, h in zip(lo, hi))] = b
            maps.append(m)
        return grids, maps

    def expected_mask(self, lv, b):
        import numpy as np
        grids, maps = self.skeleton()
        lo, hi = self.BOXES[lv][b]
        shp = tuple(h - l + 1 for l, h in zip(lo, hi))
        out = np.zeros(shp, dtype=bool)
        for m in np.ndindex(*shp):
            fine = tuple(2 * (l + x) for l, x in zip(lo, m))
            out[m] = maps[lv + 1][tuple(f // self.G for f in fine)] == -1
        return out

    def setup(self, ex):
        import numpy as np
        grids, maps = self.skeleton()
        calls = []
        W = z3.Function("WORKER", I, z3.RealSort())

        def worker(kind):
            def c(ex_, args, kw):
                calls.append((kind, args[0]))
                return W(z3.IntVal(len(calls) - 1))
            return c
        def expand3_concrete(ex_, args, kw):
            """the same contract as expand3_contract (out[x,y,z] = arr[x//f, y//f, z//f]) for a concrete factor and shape"""
            from pyvc.ops import as_ndarray
            a = as_ndarray(args[0])
            f = as_const(to_z3(args[1]))
            if not isinstance(f, int) or f < 0:
                raise Unsupported("expand_array3d: symbolic factor in a concrete skeleton")
            e, _ = a.snapshot()
            sh = [as_const(to_z3(n)) * f for n in a.shape]

            def el(ix):
                c = [as_const(to_z3(i)) for i in ix]
                if any(not isinstance(x, int) for x in c):
                    raise Unsupported("expand_array3d: symbolic index in a concrete skeleton")
                return e(tuple(x // f for x in c))
            return NDArray(sh, el, a.dtype)
        self.contracts = {PE + "increment_sum_masked": worker("masked"), PE + "increment_sum": worker("plain"),
                          "amr_kitchen.utils.expand_array3d": expand3_concrete}

        def conc(a):
            a = np.asarray(a)
            return NDArray(list(a.shape), lambda ix, a=a: int(a[tuple(as_const(to_z3(i)) for i in ix)]), "int")
        cells = [{"indexes": [[Vec(list(lo), "array"), Vec(list(hi), "array")] for lo, hi in self.BOXES[lv]],
                  # any distribution of boxes over binary files: file names decreasing with the box number at level 0, one
                  # shared file at level 1 with the boxes stored in the reverse of their header order
                  "files": [f"Level_{lv}/Cell_D_{(0 if lv == 1 else len(self.BOXES[lv]) - 1 - b):05d}" for b in range(len(self.BOXES[lv]))],
                  "offsets": [1000 * lv + 10 * (len(self.BOXES[lv]) - b) for b in range(len(self.BOXES[lv]))]} for lv in range(3)]
        dx = [Vec([0.5 / 2 ** lv, 0.25 / 2 ** lv, 1.0 / 2 ** lv], "array") for lv in range(3)]
        pck = Record("amr_kitchen.plotfile_cooker.PlotfileCooker", fields={"rho": 0, "volFrac": 1, "temp": 2}, pfile="plt",
                     limit_level=2, grid_sizes=[Vec(list(g), "array") for g in grids], box_arrays=[conc(m) for m in maps],
                     cells=cells, boxes=[list(range(len(b))) for b in self.BOXES], dx=dx)
        return {"args": [pck, "temp"], "kwargs": {"limit_level": self.limit, "use_volfrac": self.volfrac}, "calls": calls, "W": W,
                "cells": cells}

    def call(self, ex, inp):
        return ex.call_qual(self.qual, inp["args"], inp["kwargs"])

    def post(self, ex, inp, out):
        import numpy as np
        ctx = ex.ctx
        ctx.oblige("raises-nothing", out.kind == "ret", "P", note=str(out.exc) if out.kind != "ret" else "")
        if out.kind != "ret":
            return
        L = 2 if self.limit is None else self.limit
        want = [(lv, b) for lv in range(L + 1) for b in range(len(self.BOXES[lv]))]
        calls = inp["calls"]
        ctx.oblige("post.one-task-per-box-of-every-level-up-to-the-limit", len(calls) == len(want), "P", note=f"{len(calls)} vs {len(want)}")
        if len(calls) != len(want):
            return
        W = inp["W"]
        total = z3.RealVal(0)
        for k in range(len(calls)):
            total = total + W(z3.IntVal(k))
        ctx.oblige("post.integral-is-the-sum-of-the-workers-results", veq(ctx, out.value, total), "P")
        ctx.structure("post.tasks-are-dicts", all(isinstance(a, dict) for _, a in calls))
        if not all(isinstance(a, dict) for _, a in calls):
            return
        # a task is the task OF the box whose file and read offset it names (the order of the tasks is free: the result is a sum)

        def box_of(a):
            for (lv, b) in want:
                if a.get("file") == inp["cells"][lv]["files"][b] and veq(ctx, a.get("offset"), inp["cells"][lv]["offsets"][b]) is True:
                    return (lv, b)
            return None
        owners = [box_of(a) for _, a in calls]
        ctx.oblige("post.every-box-up-to-the-limit-has-exactly-one-task-with-its-own-file-and-offset", sorted(o for o in owners if o is not None) == want, "P",
                   note=str(owners))
        for k, (own, (kind, a)) in enumerate(zip(owners, calls)):
            if own is None:
                continue
            lv, b = own
            tag = f"[level {lv}, box {b}]"
            ctx.oblige(f"post.masked-below-the-limit-only{tag}", kind == ("masked" if lv < L else "plain"), "P")
            ctx.oblige(f"post.field-and-volume-fraction-components{tag}", veq(ctx, a.get("id_int"), 2) and
                       (veq(ctx, a.get("id_vol"), 1) if self.volfrac else a.get("id_vol") is None), "P")
            dv = (0.5 / 2 ** lv) * (0.25 / 2 ** lv) * (1.0 / 2 ** lv)
            ctx.oblige(f"post.cell-volume-of-its-level{tag}", veq(ctx, a.get("dV"), dv), "P", note=str(a.get("dV")))
            if lv < L:
                m = a.get("covering_mask")
                exp = self.expected_mask(lv, b)
                okm = isinstance(m, NDArray) and [as_const(to_z3(x)) for x in m.shape] == list(exp.shape)
                if okm:
                    for ix in np.ndindex(*exp.shape):
                        v = m.elem(tuple(ix))
                        v = as_const(v) if is_z3(v) else v
                        if not isinstance(v, bool):
                            v = bool(ctx.entails(to_z3(v))) if exp[ix] else (not ctx.entails(z3.Not(to_z3(v))))
                        if v != bool(exp[ix]):
                            okm = False
                            break
                ctx.oblige(f"post.covering-mask-of-this-box{tag}", okm, "P")


class MaskedLevelU(FragmentTask):
    """volume_integral, the body of the loop over the masked levels for ONE level with ANY number of boxes (unbounded: two loop
    invariants).  Task construction: after k boxes the task list holds, for every j < k, box j's own file and offset, the
    components, the level's cell volume and the covering mask of box j.  Summation: after k results the integral is what it was
    plus the sum of the first k workers' results.  Hence every box of the level contributes exactly once, with its own mask."""
    prop = "C09"
    reach = "U"
    qual = PE + "volume_integral"
    first = staticmethod(lambda s: isinstance(s, ast.Assign) and ast.unparse(s).startswith("mp_calls = []"))

    @staticmethod
    def last(s):
        return isinstance(s, ast.For) and "increment_sum_masked" in ast.unparse(s.iter)

    def __init__(self):
        self.name = "volume_integral.masked-level-body[any number of boxes]"

    def setup(self, ex):
        from pyvc.loops import LoopSpec
        from pyvc.exec import loop_nodes
        ctx = ex.ctx
        R = z3.RealSort()
        nb, lv = z3.Int("nboxes"), z3.Int("lv")
        ctx.assume(z3.And(nb >= 0, lv >= 0))
        FILE, OFF = z3.Function("FILE", I, I), z3.Function("OFF", I, I)
        MASK = z3.Function("MASK", I, I, I, I, z3.BoolSort())
        WF = z3.Function("WORKER_RESULT", I, I, R)           # a function of what the task reads: (file, offset)
        PS = z3.Function("PARTIAL_SUM", I, R)
        q = z3.Int("q")
        ctx.assume(PS(0) == 0)
        ctx.assume(z3.ForAll([q], z3.Implies(q >= 0, PS(q + 1) == PS(q) + WF(FILE(q), OFF(q))), patterns=[PS(q + 1)]))
        msh = [z3.Int(f"m{d}") for d in range(3)]
        mask = lambda j: NDArray(list(msh), lambda ix, j=j: MASK(to_z3(j), *[to_z3(i) for i in ix]), "bool")
        dxs = [z3.Real(f"dx{d}") for d in range(3)]
        dV = ctx.define("prod", dxs[0] * dxs[1] * dxs[2]) if hasattr(ctx, "define") else dxs[0] * dxs[1] * dxs[2]
        idv, idi = z3.Int("id_vol"), z3.Int("id_int")
        INT0 = z3.Real("integral_before")

        def task(j):
            return {"file": FILE(to_z3(j)), "offset": OFF(to_z3(j)), "id_vol": idv, "id_int": idi, "covering_mask": mask(j), "dV": None}
        self.task = task
        pck = Record("amr_kitchen.plotfile_cooker.PlotfileCooker",
                     boxes=SymSeq(lv + 1, lambda l: SymSeq(nb, lambda j: Opaque("box", "obj"))),
                     cells=SymSeq(lv + 1, lambda l: {"files": SymSeq(nb, lambda j: FILE(to_z3(j))), "offsets": SymSeq(nb, lambda j: OFF(to_z3(j)))}),
                     dx=SymSeq(lv + 1, lambda l: Vec(list(dxs), "array")))
        masks = SymSeq(lv + 1, lambda l: SymSeq(nb, lambda j: mask(j)))

        def worker(ex_, args, kw):
            a = args[0]
            return WF(to_z3(a.get("file")), to_z3(a.get("offset")))
        self.contracts = {PE + "increment_sum_masked": worker}
        pool = Record("Pool")
        pool.held = True
        fdef = ex.repo.func(self.qual)[0]
        loops = list(loop_nodes(fdef))
        build = [i for i, n in enumerate(loops) if isinstance(n, ast.For) and "covering_mask" in ast.unparse(n) and "mp_calls.append" in ast.unparse(n)
                 and "zip(" in ast.unparse(n.iter)]
        summ = [i for i, n in enumerate(loops) if self.last(n)]
        if len(build) != 1 or len(summ) != 1:
            raise Unsupported("the task-construction / summation loops of the masked levels are not in this function (restructured code)")
        holder = {}

        def t_build(ex_, fr, k, entry):
            k3 = to_z3(k)
            dvv = fr.vars.get("dV")
            holder["dV"] = dvv
            return {"mp_calls": SymSeq(k3, lambda j: dict(task(j), dV=dvv)), "__assume__": [z3.And(k3 >= 0, k3 <= nb)],
                    "__assert__": [("in-range", k3 <= nb)]}

        def t_sum(ex_, fr, k, entry):
            return {"integral": INT0 + PS(to_z3(k))}
        self.loopspecs = {(self.qual, build[0]): LoopSpec(t_build), (self.qual, summ[0]): LoopSpec(t_sum)}
        frame = {"pck": pck, "lv": lv, "covering_masks": masks, "id_vol": idv, "id_int": idi, "integral": INT0, "pool": pool}
        return {"frame": frame, "nb": nb, "PS": PS, "INT0": INT0, "dxs": dxs, "holder": holder}

    def post(self, ex, inp, out):
        ctx = ex.ctx
        ctx.oblige("raises-nothing", out.kind == "ret", "P", note=str(out.exc) if out.kind != "ret" else "")
        if out.kind != "ret":
            return
        v = out.value
        ctx.oblige("post.integral-grew-by-the-sum-of-every-box-once", to_z3(v["integral"]) == inp["INT0"] + inp["PS"](inp["nb"]), "P")
        dvv = v.get("dV")
        d = inp["dxs"]
        ctx.oblige("post.cell-volume-of-the-level", veq(ctx, dvv, d[0] * d[1] * d[2]), "P")
        ctx.oblige("post.one-task-per-box-with-its-own-file-offset-and-mask",
                   veq(ctx, v["mp_calls"], SymSeq(inp["nb"], lambda j: dict(self.task(j), dV=dvv))), "P")


def parent_tasks(tier):
    gs = (2, 4, 8) if tier == "quick" else (2, 4, 6, 8, 16, 32)
    return [CoveringMask(g) for g in gs] + [OccupancyMap(g) for g in ((4,) if tier == "quick" else (2, 4, 8))] + [MapResolution()] + \
        [MaskedLevelU(), IntegralOrchestration(None, False), IntegralOrchestration(1, True), IntegralOrchestration(2, True), IntegralOrchestration(0, False)]


def parent_canaries():
    f = "amr_kitchen/pestle/pestle.py"
    return [("covering mask: box end converted without the refinement ratio",
             [(f, "            barr_ends = np.array((indices[1] * 2) // next_lv_factors, dtype=int)", "            barr_ends = np.array((indices[1]) // next_lv_factors, dtype=int)")],
             ["volume_integral.covering-mask-of-a-box[g=4]"]),
            ("covering mask: covered cells counted, uncovered ones masked",
             [(f, "            mask[next_lv_map == -1] = 1", "            mask[next_lv_map != -1] = 1")],
             ["volume_integral.covering-mask-of-a-box[g=4]"]),
            ("occupancy map: box painted one map cell too far",
             [("amr_kitchen/plotfile_cooker.py", "                bidx_hi = idx[1] // box_rez", "                bidx_hi = (idx[1] + 1) // box_rez")],
             ["compute_box_array.level-loop[g=4]"])]


def tasks(tier):
    return parent_tasks(tier)


def canaries(tier):
    return parent_canaries()
