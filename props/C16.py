"""C16 - mandoline's plotfile-format slice is a valid 2D plotfile of the plane data."""
import z3
from pyvc.vals import *  # noqa
from pyvc.task import FragmentTask
from props.C01 import ASSUMPTIONS as A01, TRUSTED as T01
from props.mandoline_kernels import kernel_tasks, kernel_canaries

MM = "amr_kitchen.mandoline.mandoline.Mandoline."
ASSUMPTIONS = A01 + ["interpolation over reals; the per-level interpolation statements, box selection, slice_box, the global 2D Header "
                     "(writer then real parser on skeletons, with and without a level limit) and the chunking arithmetic are under "
                     "contract; the NaN bookkeeping of interpolate_bylevel, the level Cell_H text and FAB writing are covered by the "
                     "bounded run-time layer (np.empty poisoned); where a level has a sample on one side of the plane "
                     "only, 'that level's own data' is read as the single available sample",
                     "fragment extraction: the chunking statements of write_cell_data_at_level are executed in isolation "
                     "(everything else of the method is dropped)"]
TRUSTED = T01


class Chunking(FragmentTask):
    """The file-splitting arithmetic of write_cell_data_at_level: for any number of boxes n >= 0 and any written size the
    chunks [i, i+chunk_size) for i in range(0, n, chunk_size), paired with one file name each, partition 0..n-1."""
    prop = "C16"
    reach = "U"
    qual = MM + "write_cell_data_at_level"
    first = staticmethod(FragmentTask.assigns("nfiles"))
    last = staticmethod(FragmentTask.assigns("fnames"))

    def __init__(self):
        self.name = "write_cell_data_at_level.chunking"

    def setup(self, ex):
        ctx = ex.ctx
        n, total = z3.Ints("n total_size")
        ctx.assume(z3.And(n >= 0, total >= 0))
        cells = SymSeq(n, lambda i: Opaque("cidx", "obj"))
        return {"frame": {"total_size": total, "cell_indexes": cells}, "n": n}

    def post(self, ex, inp, out):
        ctx = ex.ctx
        ctx.oblige("raises-nothing", out.kind == "ret", "P", note=str(out.exc))
        if out.kind != "ret":
            return
        v, n = out.value, inp["n"]
        chunk, fnames = v.get("chunk_size"), v.get("fnames")
        ok = chunk is not None and fnames is not None
        ctx.structure("post.fragment-defines-chunk_size-and-fnames", ok)
        if not ok:
            return
        ctx.oblige("post.chunk-size-positive", to_z3(chunk) >= 1, "P")     # range(0, n, chunk_size) needs a non-zero step
        nnames = len(fnames) if isinstance(fnames, list) else fnames.length
        nchunks = slice_len(0, n, chunk)          # len(range(0, n, chunk_size))
        ctx.oblige("post.one-file-name-per-chunk-no-box-dropped-by-zip", to_z3(nnames) >= to_z3(nchunks), "P")
        ctx.oblige("post.no-empty-file-name-left-over", to_z3(nnames) <= to_z3(nchunks), "X")


def tasks(tier):
    from props.mandoline_parents import parent_tasks
    from props.mandoline_boxes import box_tasks
    from props.mandoline_parents import kernel_tasks2
    return kernel_tasks("C16", ["expand"]) + [Chunking()] + parent_tasks("C16") + box_tasks("C16", ["slice"])[:1 if tier == "quick" else 3] + \
        kernel_tasks2("C16", ("bylevel",)) + __import__("props.roundtrip", fromlist=["slice_header_tasks"]).slice_header_tasks(tier)


def canaries(tier):
    from props.mandoline_parents import parent_canaries
    from props.mandoline_parents import kernel_canaries2
    from props.roundtrip import slice_header_canaries
    return kernel_canaries(["expand"]) + parent_canaries()[:1] + kernel_canaries2(("bylevel",)) + slice_header_canaries() + [
        ("chunking: number of chunks rounded down",
         [("amr_kitchen/mandoline/mandoline.py", "nchunks = -(-len(cell_indexes) // chunk_size)",
           "nchunks = len(cell_indexes) // chunk_size")], ["write_cell_data_at_level.chunking"])]


SCENARIO_TIMEOUT = 600
SCENARIO_WORKERS = 4


def scenarios(tier, seed):
    out = [{"kind": "slicepf", "seed": seed * 1000 + 1100 + i, "ndims": 3, "nf": [2, 3][i % 2], "nlevels": [2, 3, 1][i % 3],
            "nfiles": [2, 3][i % 2], "layout": ["shuffled", "roundrobin"][i % 2], "n0": [[16, 16, 16], [16, 8, 24]][i % 2],
            "geo_lo": [[1.0, 2.0, 3.0], [0., 0., 0.]][i % 2], "dx0": [[0.1, 0.2, 0.4], [1., 0.5, 0.25]][i % 2],
            "payload": ["affine", "random"][i % 2], "ncombos": 2 if tier == "quick" else 4, "npos": 12 if tier == "quick" else 24}
           for i in range(2 if tier == "quick" else 8)]
    # a slice whose written size exceeds the one-megabyte file-splitting threshold (3 boxes -> uneven chunks)
    out.append({"kind": "slicepf", "seed": seed * 1000 + 1150, "ndims": 3, "nf": 8, "nfiles": 2, "layout": "shuffled",
                "n0": [320, 64, 8], "box": 64, "nlevels": 1, "normal": 2, "payload": "random", "ncombos": 1, "npos": 2,
                "interior_only": True, "all_fields": True})       # 320*64*8 fields*8 bytes = 1.3 MB: 5 boxes in 2 files (3 + 2)
    return out


def run_scenario(p, wd):
    from harness.rt_mandoline import run_slice_plotfile_scenario
    return run_slice_plotfile_scenario(p, wd)
