"""C16 - mandoline's plotfile-format slice is a valid 2D plotfile of the plane data."""
import z3
from pyvc.vals import *  # noqa
from pyvc.task import FragmentTask, Task
from pyvc.vc import veq
from props.C01 import ASSUMPTIONS as A01, TRUSTED as T01
from props.mandoline_kernels import kernel_tasks, kernel_canaries

MM = "amr_kitchen.mandoline.mandoline.Mandoline."
ASSUMPTIONS = A01 + ["interpolation over reals; the per-level interpolation statements, box selection, slice_box, the global 2D Header "
                     "(writer then real parser on skeletons, with and without a level limit) and the chunking arithmetic are under "
                     "contract; write_cell_data_at_level is under contract as a whole on a bounded skeleton (three of four boxes out of "
                     "order, two binary files, symbolic plane data: FAB bytes, offsets, Cell_H text with the extrema rows); the NaN "
                     "bookkeeping of interpolate_bylevel is covered by the bounded run-time layer (np.empty poisoned); numbers rendered "
                     "with a round-trip format are equal as text iff equal as values; where a level has a sample on one side of the plane "
                     "only, 'that level's own data' is read as the single available sample",
                     "fragment extraction: the chunking statements of write_cell_data_at_level are executed in isolation "
                     "(everything else of the method is dropped)"]
TRUSTED = T01


class Chunking(FragmentTask):
    """The file-splitting arithmetic of write_cell_data_at_level: for any number of boxes n >= 0 and any written size the
    chunks [i, i+chunk_size) for i in range(0, n, chunk_size), paired with one file name each, partition 0..n-1."""
    prop = "C16"
    reach = "U"
    qual = MM + "write_cell_data_at_level"
    first = staticmethod(FragmentTask.assigns("nfiles"))
    last = staticmethod(FragmentTask.assigns("fnames"))

    def __init__(self):
        self.name = "write_cell_data_at_level.chunking"

    def setup(self, ex):
        ctx = ex.ctx
        n, total = z3.Ints("n total_size")
        ctx.assume(z3.And(n >= 0, total >= 0))
        cells = SymSeq(n, lambda i: Opaque("cidx", "obj"))
        return {"frame": {"total_size": total, "cell_indexes": cells}, "n": n}

    def post(self, ex, inp, out):
        ctx = ex.ctx
        ctx.oblige("raises-nothing", out.kind == "ret", "P", note=str(out.exc))
        if out.kind != "ret":
            return
        v, n = out.value, inp["n"]
        chunk, fnames = v.get("chunk_size"), v.get("fnames")
        ok = chunk is not None and fnames is not None
        ctx.structure("post.fragment-defines-chunk_size-and-fnames", ok)
        if not ok:
            return
        ctx.oblige("post.chunk-size-positive", to_z3(chunk) >= 1, "P")     # range(0, n, chunk_size) needs a non-zero step
        nnames = len(fnames) if isinstance(fnames, list) else fnames.length
        nchunks = slice_len(0, n, chunk)          # len(range(0, n, chunk_size))
        ctx.oblige("post.one-file-name-per-chunk-no-box-dropped-by-zip", to_z3(nnames) >= to_z3(nchunks), "P")
        ctx.oblige("post.no-empty-file-name-left-over", to_z3(nnames) <= to_z3(nchunks), "X")


class DictFS:
    """ghost file system of WriteLevel: every path is a concrete string, files opened for writing are kept by path"""

    def __init__(self):
        self.files = {}
        self.order = []

    def _key(self, ex, path):
        from pyvc.libos import PathVal
        if isinstance(path, str):
            return path
        if isinstance(path, PathVal) and all(isinstance(x, str) for x in path.parts):
            return ("/" if path.absolute else "") + "/".join(path.parts)
        raise Unsupported(f"path that is not concrete in a concrete skeleton: {path!r}")

    def file_id(self, ex, path):
        k = self._key(ex, path)
        return z3.IntVal(1000 + sorted(set(list(self.files) + [k])).index(k))

    def open(self, ex, path, mode):
        from pyvc.libfile import WFile
        if mode not in ("w", "wb"):
            raise Unsupported("read access in a write-only skeleton")
        k = self._key(ex, path)
        wf = WFile(k, z3.IntVal(len(self.order)), text=(mode == "w"))
        self.files[k] = wf
        self.order.append(k)
        ex.ctx.ghost.setdefault("wfiles", []).append(wf)
        return wf


class WriteLevel(Task):
    """Mandoline.write_cell_data_at_level as a whole (real code; bounded skeleton: concrete boxes, chunk sizes and field count,
    symbolic plane data): for the boxes listed, in the order listed,
      * the binary files Cell_D_0000k hold, chunk by chunk, per box: the 2D FAB header of the box's in-plane index range with
        the field count, then for every field the F-order values of the plane data subsampled to this level
        (plane[lo*f + i*f, lo*f + j*f], f = 2**(limit - lv));
      * Level_lv/Cell_H lists the boxes' in-plane ranges in that order, one FabOnDisk line per box naming ITS file and ITS byte
        offset, and the min / max rows of box t are the extrema of what was written for box t (row t, not row of the box id).
    Skeleton: three of four boxes selected out of order; sizes chosen so that the one-megabyte rule gives two files (2 + 1)."""
    prop = "C16"
    reach = "S"
    qual = MM + "write_cell_data_at_level"

    BOXES = [((0, 0, 0), (127, 3, 255)), ((128, 0, 0), (255, 3, 255)), ((0, 4, 0), (127, 7, 255)), ((128, 4, 0), (255, 7, 127))]
    SEL = [2, 0, 3]

    def __init__(self, lv, limit, nf=2):
        self.lv, self.limit, self.nf = lv, limit, nf
        self.name = f"write_cell_data_at_level[lv={lv},limit={limit},nf={nf}]"

    def setup(self, ex):
        ctx = ex.ctx
        fs = DictFS()
        ctx.ghost["fs"] = fs
        ctx.ghost["minmax_semantics"] = False
        f = 2 ** (self.limit - self.lv)
        D = z3.Function("PLANE", z3.IntSort(), z3.IntSort(), z3.IntSort(), z3.RealSort())
        NX, NY = 256 * f, 256 * f
        lvdata = [NDArray([NX, NY], lambda ix, c=c: D(z3.IntVal(c), to_z3(ix[0]), to_z3(ix[1])), "f8") for c in range(self.nf)]
        cells = {self.lv: {"indexes": [[Vec(list(lo), "array"), Vec(list(hi), "array")] for lo, hi in self.BOXES]}}
        me = Record("amr_kitchen.mandoline.mandoline.Mandoline", limit_level=self.limit, cells=cells, cx=0, cy=2, nfidxs=self.nf)
        return {"self": me, "args": ["out_plt", self.lv, lvdata, list(self.SEL)], "fs": fs, "D": D, "f": f}

    def post(self, ex, inp, out):
        from pyvc.strings import str_eq, SStr, FloatAtom
        from pyvc.libnp import reduce_const
        ctx = ex.ctx
        ctx.oblige("raises-nothing", out.kind == "ret", "P", note=str(out.exc) if out.kind != "ret" else "")
        if out.kind != "ret":
            return
        fs, D, f, nf, lv = inp["fs"], inp["D"], inp["f"], self.nf, self.lv
        rng = [((self.BOXES[b][0][0], self.BOXES[b][0][2]), (self.BOXES[b][1][0], self.BOXES[b][1][2])) for b in self.SEL]
        size = [(hi[0] - lo[0] + 1) * (hi[1] - lo[1] + 1) for lo, hi in rng]
        total = sum(s_ * nf * 8 for s_ in size)
        nfiles = total // 1000000 + 1
        chunk = max(-(-len(rng) // nfiles), 1)
        groups = [list(range(i, min(i + chunk, len(rng)))) for i in range(0, len(rng), chunk)]
        names = [f"Cell_D_{k:05d}" for k in range(len(groups))]
        want_files = [f"out_plt/Level_{lv}/{n}" for n in names] + [f"out_plt/Level_{lv}/Cell_H"]
        ctx.oblige("post.files-written", sorted(fs.files) == sorted(want_files), "P", note=f"{sorted(fs.files)} vs {sorted(want_files)}")
        if sorted(fs.files) != sorted(want_files):
            return
        hdr = lambda lo, hi: f"FAB ((8, (64 11 52 0 1 12 0 1023)),(8, (8 7 6 5 4 3 2 1)))(({lo[0]},{lo[1]}) ({hi[0]},{hi[1]}) (0,0)) {nf}\n"

        def box_data(t, c):
            lo, hi = rng[t]
            return NDArray([hi[0] - lo[0] + 1, hi[1] - lo[1] + 1],
                           lambda ix, lo=lo, c=c: D(z3.IntVal(c), (lo[0] + to_z3(ix[0])) * f, (lo[1] + to_z3(ix[1])) * f), "f8")
        offsets = {}
        for k, g in enumerate(groups):
            wf = fs.files[f"out_plt/Level_{lv}/{names[k]}"]
            pieces = list(wf.suffix)
            exp = []
            pos = 0
            for t in g:
                offsets[t] = (names[k], pos)
                h = hdr(*rng[t])
                exp.append(("text", h, pos))
                pos += len(h)
                for c in range(nf):
                    exp.append(("ser", box_data(t, c), pos))
                    pos += 8 * size[t]
            ok = len(pieces) == len(exp) and wf.closed and not wf.text and (wf.nrec == 0 or wf.nrec is None)
            ctx.structure(f"post.pieces-of-{names[k]}", ok, note=f"{len(pieces)} pieces for {len(exp)}")
            for q, ((piece, start), e) in enumerate(zip(pieces, exp)):
                ctx.oblige(f"post.{names[k]}.piece{q}-starts-where-expected", veq(ctx, start, e[2]), "P")
                if e[0] == "text":
                    okp = piece[0] == "text" and str_eq(ex, piece[1], e[1])
                    ctx.oblige(f"post.{names[k]}.piece{q}-is-the-box-header", okp, "P", note=repr(piece[1])[:120])
                else:
                    okp = piece[0] == "ser" and piece[2] == "F" and veq(ctx, piece[1], e[1])
                    ctx.oblige(f"post.{names[k]}.piece{q}-is-the-subsampled-plane-of-the-box-in-F-order", okp, "P")
        # the level header, as text
        wf = fs.files[f"out_plt/Level_{lv}/Cell_H"]
        ctx.structure("post.cell-header-is-a-closed-text-file", wf.text and wf.closed)
        from pyvc.strings import sconcat
        got = sconcat(ex, [p[1] for p, _ in wf.suffix]) if wf.suffix else ""
        red = {}

        def ext(kind, t, c):
            if (kind, t, c) not in red:
                bd = box_data(t, c)
                red[(kind, t, c)] = reduce_const(ex, kind, list(bd.shape), lambda r, bd=bd: bd.elem(tuple(r)))
            return red[(kind, t, c)]
        lines = ["1\n", "1\n", f"{nf}\n", "0\n", f"({len(rng)} 0\n"]
        lines += [f"(({lo[0]},{lo[1]}) ({hi[0]},{hi[1]}) (0,0))\n" for lo, hi in rng]
        lines += [")\n", f"{len(rng)}\n"]
        lines += [f"FabOnDisk: {offsets[t][0]} {offsets[t][1]}\n" for t in range(len(rng))]
        lines += ["\n", f"{len(rng)},{nf}\n"]
        parts = list(lines)
        for kind in ("min", "max"):
            for t in range(len(rng)):
                for c in range(nf):
                    parts.append(SStr([FloatAtom(ext(kind, t, c), ".16e")]))
                    parts.append(",")
                parts.append("\n")
            if kind == "min":
                parts += ["\n", f"{len(rng)},{nf}\n"]
        exp_text = sconcat(ex, parts)
        ctx.oblige("post.level-header-text", str_eq(ex, got, exp_text), "P", note=repr(got)[:300])


class BoxListed(FragmentTask):
    """interpolate_bylevel, the statements deciding whether a box read for the slice becomes a box of the 2D plotfile: the box is
    listed (once, with its header) exactly when the plane MEETS it - its closed extent along the normal contains the position
    (a plane on the face shared by two boxes meets both) - for any position, extent and normal."""
    prop = "C16"
    reach = "U"
    qual = "amr_kitchen.mandoline.mandoline.Mandoline.interpolate_bylevel"
    first = staticmethod(FragmentTask.assigns("box_lo"))
    last = staticmethod(lambda s: s.__class__.__name__ == "If" and "lv_box_indexes" in __import__("ast").unparse(s))

    def __init__(self, cn):
        self.cn = cn
        self.name = f"interpolate_bylevel.box-listed-iff-the-plane-meets-it[normal={cn}]"

    def setup(self, ex):
        ctx = ex.ctx
        lo, hi, pos = z3.Real("box_lo_n"), z3.Real("box_hi_n"), z3.Real("pos")
        glo, ghi = z3.Real("geo_lo_n"), z3.Real("geo_hi_n")
        ctx.assume(z3.And(glo <= lo, lo < hi, hi <= ghi, glo <= pos, pos <= ghi))
        bounds = [[z3.Real(f"o_lo{d}"), z3.Real(f"o_hi{d}")] for d in range(3)]
        bounds[self.cn] = [lo, hi]
        gh = [z3.Real(f"gh{d}") for d in range(3)]
        gl = [z3.Real(f"gl{d}") for d in range(3)]
        gh[self.cn], gl[self.cn] = ghi, glo
        hdr = Opaque("header_of_the_box", "obj")
        self_ = Record("amr_kitchen.mandoline.mandoline.Mandoline", boxes=[[None, None, bounds]], pos=pos, cn=self.cn, geo_high=gh, geo_low=gl)
        frame = {"self": self_, "lv": 0, "output": (None, None, hdr, 2), "lv_box_headers": {}, "lv_box_indexes": []}
        return {"frame": frame, "lo": lo, "hi": hi, "pos": pos, "hdr": hdr}

    def post(self, ex, inp, out):
        ctx = ex.ctx
        ctx.oblige("raises-nothing", out.kind == "ret", "P", note=str(out.exc) if out.kind != "ret" else "")
        if out.kind != "ret":
            return
        ids, hd = out.value["lv_box_indexes"], out.value["lv_box_headers"]
        meets = z3.And(inp["lo"] <= inp["pos"], inp["pos"] <= inp["hi"])
        listed = len(ids) == 1 and veq(ctx, ids[0], 2) is True and len(hd) == 1 and list(hd.values())[0] is inp["hdr"]
        nothing = len(ids) == 0 and len(hd) == 0
        ctx.structure("post.listed-once-or-not-at-all", listed or nothing)
        if listed:
            ctx.oblige("post.listed-only-if-the-plane-meets-the-box", meets, "P")
        elif nothing:
            ctx.oblige("post.a-box-the-plane-meets-is-listed", z3.Not(meets), "P")


def tasks(tier):
    from props.mandoline_parents import parent_tasks
    from props.mandoline_boxes import box_tasks
    from props.mandoline_parents import kernel_tasks2
    return kernel_tasks("C16", ["expand"]) + [Chunking(), WriteLevel(0, 1), WriteLevel(1, 1), BoxListed(0), BoxListed(2)] + parent_tasks("C16") + box_tasks("C16", ["slice"])[:1 if tier == "quick" else 3] + \
        kernel_tasks2("C16", ("bylevel",)) + __import__("props.roundtrip", fromlist=["slice_header_tasks"]).slice_header_tasks(tier)


def canaries(tier):
    from props.mandoline_parents import parent_canaries
    from props.mandoline_parents import kernel_canaries2
    from props.roundtrip import slice_header_canaries
    return kernel_canaries(["expand"]) + parent_canaries()[:1] + kernel_canaries2(("bylevel",)) + slice_header_canaries() + [
        ("level writer: box data cropped instead of subsampled",
         [("amr_kitchen/mandoline/mandoline.py", "                        data = data[::factor, ::factor]",
           "                        data = data[:data.shape[0] // factor, :data.shape[1] // factor]")], ["write_cell_data_at_level[lv=0,limit=1,nf=2]"]),
        ("level writer: minimum taken over the whole plane",
         [("amr_kitchen/mandoline/mandoline.py", "                        curr_field_min.append(np.min(data))",
           "                        curr_field_min.append(np.min(arr))")], ["write_cell_data_at_level[lv=1,limit=1,nf=2]"]),
        ("chunking: number of chunks rounded down",
         [("amr_kitchen/mandoline/mandoline.py", "nchunks = -(-len(cell_indexes) // chunk_size)",
           "nchunks = len(cell_indexes) // chunk_size")], ["write_cell_data_at_level.chunking"])]


SCENARIO_TIMEOUT = 600
SCENARIO_WORKERS = 4


def scenarios(tier, seed):
    out = [{"kind": "slicepf", "seed": seed * 1000 + 1100 + i, "ndims": 3, "nf": [2, 3][i % 2], "nlevels": [2, 3, 1][i % 3],
            "nfiles": [2, 3][i % 2], "layout": ["shuffled", "roundrobin"][i % 2], "n0": [[16, 16, 16], [16, 8, 24]][i % 2],
            "geo_lo": [[1.0, 2.0, 3.0], [0., 0., 0.]][i % 2], "dx0": [[0.1, 0.2, 0.4], [1., 0.5, 0.25]][i % 2],
            "payload": ["affine", "random"][i % 2], "ncombos": 2 if tier == "quick" else 4, "npos": 12 if tier == "quick" else 24}
           for i in range(2 if tier == "quick" else 8)]
    # a slice whose written size exceeds the one-megabyte file-splitting threshold (3 boxes -> uneven chunks)
    out.append({"kind": "slicepf", "seed": seed * 1000 + 1150, "ndims": 3, "nf": 8, "nfiles": 2, "layout": "shuffled",
                "n0": [320, 64, 8], "box": 64, "nlevels": 1, "normal": 2, "payload": "random", "ncombos": 1, "npos": 2,
                "interior_only": True, "all_fields": True})       # 320*64*8 fields*8 bytes = 1.3 MB: 5 boxes in 2 files (3 + 2)
    return out


def run_scenario(p, wd):
    from harness.rt_mandoline import run_slice_plotfile_scenario
    return run_slice_plotfile_scenario(p, wd)
