"""C12: side conditions of the pool contract, checked on the real AST on every run (solver: none needed - the
obligations are closed formulas over the syntax), plus the workers' frame obligations (non-interference)."""
import ast
from pyvc.vals import *  # noqa
from pyvc.task import Task

# pool call sites the argument was made for: (function, pool method) -> how its results are collected
KNOWN_SITES = {
    ("amr_kitchen.plotfile_cooker.pool_imap", "imap"): "ordered iterator re-yielded in order by the generator that owns the pool (both box iterators)",
    ("amr_kitchen.plotfile_cooker.LevelDataIterator.__init__", "imap"): "ordered: per-file lists chained in submission order",
    ("amr_kitchen.plotfile_cooker.LevelDataStream.__getitem__", "map"): "ordered: list in requested box order",
    ("amr_kitchen.plotfile_cooker.LevelDataStream.iter", "imap"): "ordered iterator in requested box order",
    ("amr_kitchen.taste.taste.Taster.taste_binary_headers", "imap"): "ordered: any non-None result fails, order irrelevant to the verdict",
    ("amr_kitchen.taste.taste.Taster.taste_binary_shape", "imap"): "ordered: idem",
    ("amr_kitchen.taste.taste.Taster.taste_binary_data", "imap"): "ordered (function is an open known finding of C03)",
    ("amr_kitchen.colander.colander.Colander.strain", "map"): "ordered: zipped with box_index_map built in the same loop",
    ("amr_kitchen.combine.combine.combine", "map"): "ordered: zipped with map_bfile_offsets (same np.unique order)",
    ("amr_kitchen.combine.combine.combine", "imap"): "ordered: idem",
    ("amr_kitchen.chef.chef.Chef.cook", "imap"): "ordered: zipped with box_index_map built in the same loop",
    ("amr_kitchen.mandoline.mandoline.Mandoline.slice", "map"): "ordered list per level, reduced in level then box order",
    ("amr_kitchen.mandoline.mandoline.Mandoline.plate", "map"): "ordered list per level",
    ("amr_kitchen.pestle.pestle.volume_integral", "imap"): "ordered: float accumulation in task order",
    ("amr_kitchen.whip.cli.main", "imap_unordered"): "UNORDERED: boxes of one level are disjoint slabs, levels strictly sequential (commutes)",
    ("amr_kitchen.chk2plt.chk2plt.chk2plt.convert", "imap"): "ordered: zipped with state_bin_box_ids built in the same loop",
    ("amr_kitchen.mandoline_bias_cut.main", "map"): "outside every listed property (bias cut prototype)",
}
POOL_METHODS = {"map", "imap", "imap_unordered", "starmap", "apply_async", "map_async", "apply", "amap", "uimap"}


def enclosing_functions(tree, modqual):
    out = []

    def walk(node, qual):
        for c in ast.iter_child_nodes(node):
            if isinstance(c, ast.ClassDef):
                walk(c, f"{qual}.{c.name}")
            elif isinstance(c, (ast.FunctionDef, ast.AsyncFunctionDef)):
                out.append((f"{qual}.{c.name}", c))
                walk(c, f"{qual}.{c.name}")
            else:
                walk(c, qual)
    walk(tree, modqual)
    return out


class PoolSites(Task):
    prop = "C12"
    reach = "U"
    qual = None

    def __init__(self):
        self.name = "pool-contract-side-conditions"

    def functions(self):
        return []

    def call(self, ex, inp):
        return None

    def post(self, ex, inp, out):
        ctx = ex.ctx
        repo = ex.repo
        sites = {}
        pool_ctor_args = []
        cpu_dep = []
        global_writes = []
        serial_pairs = []
        for mq, m in repo.modules.items():
            if mq.endswith("mandoline_bias_cut"):
                continue      # prototype outside every listed property (not one of the property's tools)
            for fq, fdef in enclosing_functions(m.tree, mq):
                own = [n for n in ast.walk(fdef)]
                for n in own:
                    if isinstance(n, ast.Call):
                        f = n.func
                        # Pool(...) constructions
                        nm = f.attr if isinstance(f, ast.Attribute) else (f.id if isinstance(f, ast.Name) else None)
                        if nm in ("Pool", "ProcessingPool", "ThreadPool"):
                            if n.args or n.keywords:
                                pool_ctor_args.append((fq, n.lineno))
                        if nm in ("cpu_count", "sched_getaffinity", "process_cpu_count"):
                            cpu_dep.append((fq, n.lineno))
                        if isinstance(f, ast.Attribute) and f.attr in POOL_METHODS:
                            tgt = f.value
                            is_pool = (isinstance(tgt, ast.Name) and "pool" in tgt.id.lower()) or \
                                      (isinstance(tgt, ast.Attribute) and "pool" in tgt.attr.lower()) or \
                                      (isinstance(tgt, ast.Call) and isinstance(tgt.func, (ast.Name, ast.Attribute)) and
                                       (getattr(tgt.func, "id", None) or getattr(tgt.func, "attr", "")) in ("Pool", "ProcessingPool"))
                            if is_pool:
                                # innermost function only
                                sites.setdefault((fq, f.attr), []).append(n.lineno)
                    if isinstance(n, ast.Global):
                        global_writes.append((fq, tuple(n.names)))
        # keep the innermost enclosing function of each call (a nested def would be listed twice)
        keys = set(sites)
        unknown = sorted(k for k in keys if k not in KNOWN_SITES and not any(
            k[0].startswith(o[0] + ".") and o[1] == k[1] for o in keys if o != k))
        ctx.oblige("worker-count: every pool is created without a worker-count argument", not pool_ctor_args, "P",
                   note=str(pool_ctor_args))
        ctx.oblige("worker-count: no expression depends on the number of CPUs", not cpu_dep, "P", note=str(cpu_dep))
        unordered = sorted(k for k in keys if k[1] in ("imap_unordered", "uimap", "apply_async", "map_async", "amap"))
        ctx.oblige("collection: unordered collection only at the site whose reduction commutes (whip)",
                   unordered == [("amr_kitchen.whip.cli.main", "imap_unordered")] or unordered == [], "P", note=str(unordered))
        unknown = [k for k in unknown if k not in unordered]
        if unknown:
            raise Unsupported(f"pool call site(s) not covered by the argument: {unknown}")
        # module globals are written only before pool creation (chef: in the constructor)
        okg = all(fq.endswith("Chef.set_global_sarrays") for fq, names in global_writes)
        ctx.oblige("determinism: module globals read by workers are written only before the pool is created", okg, "P",
                   note=str(global_writes))
        # serial == parallel: both branches apply the same worker to the same task list
        for fq, worker, tasks_ in (("amr_kitchen.mandoline.mandoline.Mandoline.slice", "slice_box", "pool_inputs"),
                                   ("amr_kitchen.mandoline.mandoline.Mandoline.plate", "plate_box", "pool_inputs")):
            r = repo.func(fq)
            ok = False
            if r:
                src = ast.unparse(r[0])
                ok = f"list(map({worker}, {tasks_}))" in src and f"pool.map({worker}, {tasks_})" in src
            # (a source pattern can only confirm: code of another shape is undecided here and left to the run-time comparison
            #  of serial and parallel runs)
            ctx.structure(f"serial=parallel: {fq.rsplit('.', 1)[1]} applies the same worker to the same task list in both modes", ok)
        r = repo.func("amr_kitchen.chef.chef.Chef.cook")
        ok = False
        if r:
            src = ast.unparse(r[0])
            ok = "self.knife(args)" in src and "for args in tqdm(mp_calls)" in src and "pool.imap(self.knife, mp_calls)" in src
        ctx.structure("serial=parallel: Chef.cook applies the same knife to the same task list in both modes", ok)
        # results of ordered calls are consumed in submission order next to the task list (no sort / reverse / set)
        bad = []
        for (fq, meth), lines in sites.items():
            if meth not in ("map", "imap"):
                continue
            r = repo.func(fq)
            if not r:
                continue
            for n in ast.walk(r[0]):
                if isinstance(n, ast.Call) and isinstance(n.func, ast.Name) and n.func.id in ("sorted", "reversed", "set", "frozenset"):
                    for a in ast.walk(n):
                        if isinstance(a, ast.Attribute) and a.attr in ("map", "imap"):
                            bad.append((fq, n.lineno))
        ctx.oblige("collection: ordered results are not re-ordered before they are paired with the task list", not bad, "P", note=str(bad))
        # lifetime (pool contract, CPython 3.12, observed on this code): the results of imap / imap_unordered arrive lazily; a pool
        # that nothing but that iterator references is finalised from one of its own handler threads when every result is
        # back before the task handler reports the task count (always for an empty task list), and next() then blocks for
        # ever.  So: never a temporary Pool().imap(...), and an imap iterator that leaves the function (returned, stored in an
        # attribute) must not come from a plain local pool - a with-block of a generator or an attribute has to hold the pool.
        dead = []
        for mq, m in repo.modules.items():
            if mq.endswith("mandoline_bias_cut"):
                continue
            for fq, fdef in enclosing_functions(m.tree, mq):
                parent = {}
                for a in ast.walk(fdef):
                    for c in ast.iter_child_nodes(a):
                        parent[id(c)] = a
                inner = {id(x) for d in ast.walk(fdef) if d is not fdef and isinstance(d, (ast.FunctionDef, ast.Lambda)) for x in ast.walk(d)}
                with_bound = {it.optional_vars.id for w in ast.walk(fdef) if isinstance(w, ast.With) for it in w.items
                              if isinstance(it.optional_vars, ast.Name)}
                for n in ast.walk(fdef):
                    if id(n) in inner or not (isinstance(n, ast.Call) and isinstance(n.func, ast.Attribute) and
                                              n.func.attr in ("imap", "imap_unordered", "uimap")):
                        continue
                    tgt = n.func.value
                    if isinstance(tgt, ast.Call):
                        dead.append((fq, n.lineno, "temporary pool"))
                        continue
                    if not (isinstance(tgt, ast.Name) and "pool" in tgt.id.lower()):
                        continue        # an attribute (self.pool) keeps its pool as long as the object lives
                    if tgt.id in with_bound:
                        continue
                    # a plain local: fine while the function itself consumes the iterator, not when the iterator leaves it
                    st = n
                    while id(st) in parent and not isinstance(st, ast.stmt):
                        st = parent[id(st)]
                    leaves = isinstance(st, ast.Return) or \
                        (isinstance(st, ast.Assign) and any(isinstance(t, ast.Attribute) for t in st.targets))
                    if leaves:
                        dead.append((fq, n.lineno, f"iterator leaves the function, pool '{tgt.id}' is a plain local"))
        ctx.oblige("lifetime: the pool behind every lazily consumed result stays referenced until the iteration is over", not dead, "P",
                   note=str(dead))


def pool_tasks(prop):
    from props.C05 import StrainWorker
    from props.combine_kernels import ByBinfile, ByBoxes
    from props.chef_kernels import UserPfileKnife
    from props.chk_kernels import ChkWorker
    out = [PoolSites()]
    # non-interference: each worker writes only its own output file and reads only its inputs (frames proved on the
    # real bodies); distinct tasks get distinct output files because they come from distinct np.unique entries
    for t in (StrainWorker(3), ByBoxes(), UserPfileKnife(False), ChkWorker(False, False, False)):
        t.prop = "C12"
        out.append(t)
    return out


def pool_canaries():
    return [("colander collects its workers' offsets unordered",
             [("amr_kitchen/colander/colander.py", "new_offsets = pool.map(self.strainer, mp_calls)",
               "new_offsets = list(pool.imap_unordered(self.strainer, mp_calls))")], ["pool-contract-side-conditions"]),
            ("a pool sized from the CPU count", [("amr_kitchen/pestle/pestle.py", "    pool = multiprocessing.Pool()", "    pool = multiprocessing.Pool(multiprocessing.cpu_count() // 2)")],
             ["pool-contract-side-conditions"])]
