def pool_tasks(prop):
    return []
def pool_canaries():
    return []
