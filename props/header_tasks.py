"""Header text obligations (S: bounded skeletons, every number and name symbolic).
C02: the real parser on fmtH/fmtC(PF) exposes exactly PF.   C14: parse(write(state)) == state for the writer/parser pairs."""
import z3
from pyvc.vals import *  # noqa
from pyvc.task import Task
from pyvc.vc import veq
from pyvc.libfile import TextFS, text_of_wfile
from pyvc.libos import PathVal, to_path
from pyvc.strings import SStr, NameAtom
from spec.fmt import SkelPF, S

PCK = "amr_kitchen.plotfile_cooker.PlotfileCooker."
INLINE_PCK = (PCK + "read_boxes", PCK + "read_cell_headers", PCK + "compute_global_grids")


def plt_path():
    return PathVal([("dir", Opaque("D", "path", absolute=False)), ("name", Opaque("plt", "name"))], False, False)


def install(ex, fs, root, pf, levels=None, cellh=True):
    from pyvc.libos import join2
    fs.add(ex, join2(ex, root, "Header"), pf.header_lines())
    if cellh:
        for lv in (range(pf.L + 1) if levels is None else levels):
            fs.add(ex, join2(ex, join2(ex, root, f"Level_{lv}"), "Cell_H"), pf.cellh_lines(lv))


def check_reader_view(ex, obj, pf, limit, maxmins, header_only, label="post", grids=True):
    """obligations: the attributes of a PlotfileCooker-like object equal the abstract plotfile pf (levels 0..limit)"""
    ctx = ex.ctx
    A = obj.attrs
    nd = pf.nd
    L = pf.L if limit is None else limit

    def ob(name, f):
        ctx.oblige(f"{label}.{name}", f, "P")
    keys = pf.field_keys()
    fields = A.get("fields", {})
    ob("fields-in-order", list(fields.keys()) == keys and list(fields.values()) == list(range(pf.nf)))
    ob("ndims", A.get("ndims") == nd)
    ob("time", veq(ctx, A.get("time"), pf.time))
    ob("max_level", A.get("max_level") == pf.L)
    ob("limit_level", A.get("limit_level") == L)
    ob("geo_low", veq(ctx, A.get("geo_low"), pf.geo_lo))
    ob("geo_high", veq(ctx, A.get("geo_high"), pf.geo_hi))
    dx = A.get("dx") or []
    ob("dx-all-levels", len(dx) == pf.L + 1 and veq(ctx, dx, pf.dx))
    gs = A.get("grid_sizes") or []
    ob("grid_sizes", len(gs) == pf.L + 1 and veq(ctx, [list(ex.as_iterable(g)) for g in gs], pf.n))
    boxes = A.get("boxes") or []
    ob("levels-exposed", len(boxes) == L + 1)
    for lv in range(min(L + 1, len(boxes))):
        exp = [[[pf.blo[lv][b][d], pf.bhi[lv][b][d]] for d in range(nd)] for b in range(pf.nboxes[lv])]
        ob(f"boxes[{lv}]", veq(ctx, boxes[lv], exp))
    if grids:
        g = A.get("grids") or []
        ob("grids-levels", len(g) == L + 1)
        for lv in range(min(L + 1, len(g))):
            for d in range(nd):
                arr = g[lv][d]
                i = ctx.fresh("gi")
                ok = isinstance(arr, NDArray) and arr.ndim == 1
                if ok:
                    n = pf.n[lv][d]
                    f = z3.Implies(z3.And(i >= 0, i < n), to_real(arr.elem((i,))) == pf.geo_lo[d] + (to_real(i) + 0.5) * pf.dx[lv][d])
                    ob(f"grids[{lv}][{d}]", zand(to_z3(arr.shape[0]) == n, f))
                else:
                    ob(f"grids[{lv}][{d}]", False)
    if header_only:
        ob("header-only-has-no-cells", "cells" not in A)
        return
    cells = A.get("cells") or []
    ob("cells-levels", len(cells) == L + 1)
    root = to_path(ex, A.get("pfile"))
    for lv in range(min(L + 1, len(cells))):
        c = cells[lv]
        nb = pf.nboxes[lv]
        ob(f"cells[{lv}].indexes", veq(ctx, [[list(ex.as_iterable(x[0])), list(ex.as_iterable(x[1]))] for x in c.get("indexes", [])],
                                       [[pf.ilo[lv][b], pf.ihi[lv][b]] for b in range(nb)]))
        ob(f"cells[{lv}].offsets", veq(ctx, c.get("offsets"), pf.off[lv]))
        files = c.get("files", [])
        okf = len(files) == nb
        for b in range(min(nb, len(files))):
            p = to_path(ex, files[b])
            want = root.parts + [f"Level_{lv}", ("fun", "text:" + repr(S(NameAtom(pf.fileatoms[lv][pf.file_of[lv][b]], plain=True))))]
            okf = okf and p.absolute == root.absolute and [repr(x) for x in p.parts] == [repr(x) for x in want]
        ob(f"cells[{lv}].files", okf)
        if maxmins:
            keys_ = pf.field_keys()
            for nm, tab in (("mins", pf.mins), ("maxs", pf.maxs)):
                d_ = c.get(nm) or {}
                ok = list(d_.keys()) == keys_
                ob(f"cells[{lv}].{nm}-keys", ok)
                if ok:
                    for ci, k in enumerate(keys_):
                        col = d_[k]
                        ob(f"cells[{lv}].{nm}[field {ci}]", veq(ctx, list(ex.as_iterable(col)), [tab[lv][b][ci] for b in range(nb)]))
        else:
            ob(f"cells[{lv}].no-minmax-unless-requested", "mins" not in c)


class HeaderParse(Task):
    """PlotfileCooker.__init__ (with read_boxes, read_cell_headers, compute_global_grids inlined) on fmtH/fmtC(PF)."""
    prop = "C02"
    reach = "S"
    qual = PCK + "__init__"
    inline = INLINE_PCK

    def __init__(self, prop, nd, nf, nboxes, limit=None, maxmins=False, header_only=False, repeated=None, ref_extra=0, files=1,
                 validate=False, cellh_nf=None, derived=None):
        self.derived = derived
        self.cellh_nf = cellh_nf        # component count stated by the level headers when it is NOT the Header's field count
        self.prop = prop
        self.cfg = dict(nd=nd, nf=nf, nboxes=nboxes, limit=limit, maxmins=maxmins, header_only=header_only, repeated=repeated,
                        ref_extra=ref_extra, files=files, validate=validate)
        self.name = (f"PlotfileCooker.__init__[nd={nd},nf={nf},boxes={nboxes},limit={limit},maxmins={maxmins},"
                     f"header_only={header_only},repeated={repeated},ref+{ref_extra},files={files}" + (",validate_mode" if validate else "") + "]")
        if cellh_nf is not None:
            self.name = self.name[:-1] + f",level headers state {cellh_nf} components]"
        if derived:
            self.name = self.name[:-1] + f",names derived {derived}]"

    def functions(self):
        return [self.qual] + list(INLINE_PCK)

    def setup(self, ex):
        c = self.cfg
        ctx = ex.ctx
        pf = SkelPF(c["nd"], c["nf"], c["nboxes"], repeated=c["repeated"], ref_extra=c["ref_extra"], files_per_level=c["files"],
                    derived=self.derived)
        # well-formedness used by the grids: geo_hi = geo_lo + n*dx, n >= 1, dx > 0
        for lv in range(pf.L + 1):
            for d in range(pf.nd):
                ctx.assume(z3.And(pf.n[lv][d] >= 1, pf.dx[lv][d] > 0,
                                  pf.geo_hi[d] == pf.geo_lo[d] + to_real(pf.n[lv][d]) * pf.dx[lv][d]))
        if self.cellh_nf is not None:
            pf.cellh_nf = self.cellh_nf
        fs = TextFS()
        ctx.ghost["fs"] = fs
        root = plt_path()
        install(ex, fs, root, pf, cellh=not c["header_only"])
        self_ = Record("amr_kitchen.plotfile_cooker.PlotfileCooker")
        kw = dict(limit_level=c["limit"], header_only=c["header_only"], maxmins=c["maxmins"])
        if c.get("validate"):
            kw["validate_mode"] = True          # the way taste opens the plotfile
        return {"self": self_, "args": [root], "kwargs": kw, "pf": pf, "fs": fs}

    def post(self, ex, inp, out):
        ctx = ex.ctx
        c = self.cfg
        pf = inp["pf"]
        if c["limit"] is not None and c["limit"] > pf.L:
            ctx.oblige("post.limit-above-finest-refused", out.kind == "exc" and out.exc.etype == "ValueError", "P", note=str(out.exc))
            return
        if self.cellh_nf is not None:
            # level headers whose component count contradicts the Header: the reader (also as taste opens it) must refuse -
            # every box would otherwise be served with a shape other than the one its level header declares
            ctx.oblige("post.level-header-component-count-contradicting-the-Header-is-refused", out.kind == "exc", "P")
            return
        ctx.oblige("raises-nothing", out.kind == "ret", "P", note=str(out.exc))
        if out.kind != "ret":
            return
        check_reader_view(ex, inp["self"], pf, c["limit"], c["maxmins"], c["header_only"])
        opened = [k for k, m in inp["fs"].opened]
        if c["header_only"]:
            ctx.oblige("frame.header-only-opens-only-the-Header", all(k.endswith("/Header") for k in opened), "P", note=str(opened))
        L = pf.L if c["limit"] is None else c["limit"]
        ctx.oblige("frame.no-level-above-the-limit-is-opened",
                   not any(f"Level_{lv}/" in k for k in opened for lv in range(L + 1, pf.L + 1)), "P", note=str(opened))


def header_tasks(prop, tier):
    out = []
    if prop == "C02":
        cfgs = [dict(nd=3, nf=2, nboxes=[2, 1], maxmins=True, files=2), dict(nd=2, nf=2, nboxes=[1, 2], limit=0, ref_extra=1),
                dict(nd=3, nf=3, nboxes=[1], repeated=(0, 2)), dict(nd=3, nf=1, nboxes=[1, 1], header_only=True),
                dict(nd=3, nf=4, nboxes=[1], repeated=(0, 1, 3), maxmins=True),        # one name three times: name, name_2, name_3
                dict(nd=3, nf=3, nboxes=[1], repeated=(0, 2), derived={1: (0, "_2")}),  # a, a_2, a: the renaming must not collide
                dict(nd=2, nf=1, nboxes=[1, 1], limit=2), dict(nd=3, nf=2, nboxes=[1, 1, 1], limit=1, maxmins=True)]
        if tier == "thorough":
            cfgs += [dict(nd=3, nf=4, nboxes=[2, 3, 2, 1], maxmins=True, files=2, ref_extra=2, repeated=(1, 3)),
                     dict(nd=2, nf=3, nboxes=[4, 4], limit=1, maxmins=True, files=3),
                     dict(nd=3, nf=4, nboxes=[1, 2, 4], repeated=(0, 1), limit=2), dict(nd=2, nf=2, nboxes=[3], header_only=True)]
        for c in cfgs:
            out.append(HeaderParse("C02", **c))
    if prop in ("C03", "C20"):
        # the reader as taste builds it (validate_mode): every well-formed header is accepted and exposed unchanged
        for c in [dict(nd=3, nf=2, nboxes=[2, 1], files=2, validate=True), dict(nd=2, nf=3, nboxes=[1, 2], limit=0, ref_extra=1, maxmins=True, validate=True),
                  dict(nd=3, nf=3, nboxes=[1], repeated=(0, 2), derived={1: (0, "_2")}, validate=True)]:
            out.append(HeaderParse(prop, **c))
    if prop in ("C04", "C20"):
        for c in [dict(nd=3, nf=2, nboxes=[1, 1], validate=True, cellh_nf=3), dict(nd=3, nf=2, nboxes=[2], validate=False, cellh_nf=1)]:
            out.append(HeaderParse(prop, **c))
    if prop == "C14":
        from props.roundtrip import roundtrip_tasks
        out += roundtrip_tasks(tier)
    return out


def header_canaries(prop):
    f = "amr_kitchen/plotfile_cooker.py"
    if prop == "C02":
        return [("grid sizes lose their +1", [(f, "self.grid_sizes.append(grid_size + 1)", "self.grid_sizes.append(grid_size)")],
                 ["PlotfileCooker.__init__[nd=3,nf=2,boxes=[2, 1],limit=None,maxmins=True,header_only=False,repeated=None,ref+0,files=2]"]),
                ("min and max tables swapped", [(f, "lvmins.append(np.array(mins_str[:-1], dtype=float))", "lvmaxs.append(np.array(mins_str[:-1], dtype=float))")],
                 ["PlotfileCooker.__init__[nd=3,nf=2,boxes=[2, 1],limit=None,maxmins=True,header_only=False,repeated=None,ref+0,files=2]"])]
    from props.roundtrip import roundtrip_canaries
    return roundtrip_canaries()


# ---------------------------------------------------------------------------------------------------------------------
# unbounded parts of C02


from pyvc.task import FragmentTask
from pyvc.loops import LoopSpec
import ast as _ast


class LimitDecision(FragmentTask):
    """The level-limit decision of PlotfileCooker.__init__ (extracted fragment): None -> finest level; L <= finest -> L;
    above the finest level -> ValueError, for every finest level and every requested limit."""
    prop = "C02"
    reach = "U"
    qual = PCK + "__init__"
    first = staticmethod(lambda s: isinstance(s, _ast.If) and "limit_level is None" in _ast.unparse(s.test))
    last = first

    def __init__(self, given):
        self.given = given
        self.name = f"PlotfileCooker.__init__.limit-decision[{'limit given' if given else 'limit None'}]"

    def setup(self, ex):
        ml = z3.Int("max_level")
        ex.ctx.assume(ml >= 0)
        lim = z3.Int("limit") if self.given else None
        self_ = Record("amr_kitchen.plotfile_cooker.PlotfileCooker", max_level=ml)
        return {"frame": {"self": self_, "limit_level": lim}, "ml": ml, "lim": lim, "self_": self_}

    def post(self, ex, inp, out):
        ctx = ex.ctx
        ml, lim = inp["ml"], inp["lim"]
        if lim is None:
            ctx.oblige("post.none-means-finest", out.kind == "ret" and veq(ctx, inp["self_"].attrs.get("limit_level"), ml), "P")
            return
        if out.kind == "exc":
            ctx.oblige("post.refuses-only-above-finest", zand(lim > ml, out.exc.etype == "ValueError"), "P")
        else:
            ctx.oblige("post.accepts-only-up-to-finest", lim <= ml, "P")
            ctx.oblige("post.limit-kept", veq(ctx, inp["self_"].attrs.get("limit_level"), lim), "P")


class GlobalGrids(Task):
    """compute_global_grids for a SYMBOLIC number of levels: grids[lv][d][i] == geo_low[d] + (i + 1/2) dx[lv][d], with
    grid_sizes[lv][d] points (real arithmetic; WF: geo_high = geo_low + n dx)."""
    prop = "C02"
    reach = "U"
    qual = PCK + "compute_global_grids"

    def __init__(self, nd):
        self.nd = nd
        self.name = f"compute_global_grids[nd={nd}]"

    def setup(self, ex):
        ctx = ex.ctx
        nd = self.nd
        L = z3.Int("L")
        ctx.assume(L >= 0)
        I, R = z3.IntSort(), z3.RealSort()
        DX = [z3.Function(f"DX{d}", I, R) for d in range(nd)]
        N = [z3.Function(f"N{d}", I, I) for d in range(nd)]
        lo = [z3.Real(f"glo{d}") for d in range(nd)]
        hi = [z3.Real(f"ghi{d}") for d in range(nd)]

        def wf(lv):
            lv = to_z3(lv)
            return z3.And(*[z3.And(N[d](lv) >= 1, DX[d](lv) > 0, hi[d] == lo[d] + to_real(N[d](lv)) * DX[d](lv)) for d in range(nd)])

        def grid(lv, d):
            lv = to_z3(lv)
            return NDArray([N[d](lv)], lambda ix: lo[d] + (to_real(ix[0]) + 0.5) * DX[d](lv))
        self_ = Record("amr_kitchen.plotfile_cooker.PlotfileCooker", limit_level=L, ndims=nd, geo_low=lo, geo_high=hi,
                       dx=SymSeq(L + 1, lambda lv: [DX[d](to_z3(lv)) for d in range(nd)]),
                       grid_sizes=SymSeq(L + 1, lambda lv: Vec([N[d](to_z3(lv)) for d in range(nd)])))

        def template(ex_, fr, k, entry):
            return {"grids": SymSeq(k, lambda lv: [grid(lv, d) for d in range(nd)]), "__assume__": [wf(k)]}
        self.loopspecs = {(self.qual, 0): LoopSpec(template)}
        return {"self": self_, "args": [], "L": L, "grid": grid}

    def post(self, ex, inp, out):
        ctx = ex.ctx
        ctx.oblige("raises-nothing", out.kind == "ret", "P", note=str(out.exc))
        if out.kind != "ret":
            return
        L, grid = inp["L"], inp["grid"]
        ctx.oblige("post.cell-centres-of-every-level", veq(ctx, out.value, SymSeq(L + 1, lambda lv: [grid(lv, d) for d in range(self.nd)]),
                                                          need_init=False), "P")


_ht = header_tasks


def header_tasks(prop, tier):      # noqa: F811
    out = _ht(prop, tier)
    if prop == "C02":
        out += [LimitDecision(True), LimitDecision(False), GlobalGrids(2), GlobalGrids(3)]
    return out
