def header_tasks(prop, tier):
    return []
def header_canaries(prop):
    return []
