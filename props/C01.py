"""C01 - box data read through the indexing interface is exactly what is on disk."""
import z3
from pyvc.vals import *  # noqa
from pyvc.task import Task
from pyvc.vc import veq
from pyvc.libfile import f_f64, f_size
from contracts.common import sym_path, sym_fab

PC = "amr_kitchen.plotfile_cooker."

ASSUMPTIONS = [
    "python ints are mathematical; numpy int64 products of extents/offsets are assumed not to overflow",
    "float64 payloads are opaque values f64(file, byte position): only copied, never computed on (bit-exact incl. NaN)",
    "FAB header lines are described by ghost functions hdr_ok/lo/hi/nc over (file, position); the utils parsers are "
    "represented by contracts over them (justified by the 'parsers' obligations: real bodies on canonical header text)",
    "termination is not proved for unbounded loops unless an obligation named '*.in-range' says so",
]
TRUSTED = [
    "files: open/seek/tell/readline/np.fromfile contracts of DESIGN 2.5 (short reads return fewer items)",
    "numpy: reshape(order='F') == flatF index map; ellipsis/slice/int-array indexing; np.prod; np.append",
    "python: slice.indices semantics as implemented in pyvc.vals.slice_indices (sampled against CPython in selftest)",
    "PyVC executor and z3/cvc5",
]


class Reader(Task):
    prop = "C01"
    reach = "U"
    # the three per-box readers (and the three per-file scanners) are siblings: one that delegates to another is executed
    # through the other's real body (the postcondition is still the delegating reader's own)
    inline = tuple(PC + f for f in ("mp_read_box_single_field", "mp_read_box_slice_field", "mp_read_box_index_field"))

    def __init__(self, fn, nd, form):
        self.fn, self.nd, self.form = fn, nd, form
        self.qual = PC + fn
        self.name = f"{fn}[nd={nd},{form}]"

    # the selector and what it means (the property's spec of a selection: list of component indices)
    def selector(self, ctx, nc):
        form = self.form
        if form == "int":
            k = z3.Int("k")
            ctx.assume(z3.And(k >= 0, k < nc))
            return k, None, (lambda c: k), None
        if form.startswith("slice"):
            a, b, s = z3.Int("sa"), z3.Int("sb"), z3.Int("ss")
            parts = {"slice:::": (None, None, None), "slice:a::": (a, None, None), "slice::b:": (None, b, None),
                     "slice:a:b:": (a, b, None), "slice:a:b:s": (a, b, s), "slice:::s": (None, None, s)}[form]
            if parts[2] is not None:
                ctx.assume(s >= 1)          # forward slices (the selector refuses the others)
            sl = SSlice(*parts)
            st, en, stp = slice_indices(sl, nc)
            cnt = slice_len(st, en, stp)
            return sl, cnt, (lambda c: st + c * stp), None
        if form.startswith("list") and form != "listN":
            m = int(form[4:])
            items = [z3.Int(f"f{t}") for t in range(m)]
            for t in range(m):
                ctx.assume(z3.And(items[t] >= 0, items[t] < nc))
                if t:
                    ctx.assume(items[t - 1] < items[t])
            from pyvc.ops import as_ndarray
            arr = Vec(items)
            ea = as_ndarray(arr)
            return arr, m, (lambda c: ea.elem((c,))), None
        if form == "listN":
            m = z3.Int("m")
            L = z3.Function("L", z3.IntSort(), z3.IntSort())
            s_, t_ = z3.Ints("qs qt")
            ctx.assume(m >= 1)
            ctx.assume(z3.ForAll([t_], z3.Implies(z3.And(t_ >= 0, t_ < m), z3.And(L(t_) >= 0, L(t_) < nc))))
            ctx.assume(z3.ForAll([s_, t_], z3.Implies(z3.And(s_ >= 0, s_ < t_, t_ < m), L(s_) < L(t_))))
            arr = NDArray([m], lambda idx: L(to_z3(idx[0])), "int")
            return arr, m, (lambda c: L(to_z3(c))), None
        raise ValueError(form)

    def setup(self, ex):
        ctx = ex.ctx
        ctx.ghost["ndims"] = self.nd
        path, F = sym_path(ctx, "F")
        off = z3.Int("off")
        fab = sym_fab(ctx, F, off, self.nd, canonical=False)
        farg, cnt, sel, _ = self.selector(ctx, fab.nc)
        before = list(farg.items) if isinstance(farg, Vec) else None        # the caller's selection object (shared between reads)
        return {"args": [(path, off, farg)], "fab": fab, "cnt": cnt, "sel": sel, "farg": farg, "before": before}

    def post(self, ex, inp, out):
        ctx = ex.ctx
        ctx.oblige("raises-nothing", out.kind == "ret", "P",
                   note=str(out.exc) if out.kind != "ret" else "")
        if out.kind != "ret":
            return
        fab, cnt, sel = inp["fab"], inp["cnt"], inp["sel"]
        if cnt is None:
            exp = NDArray(list(fab.shape), lambda idx: fab.value(idx, sel(None)))
        else:
            exp = NDArray(list(fab.shape) + [cnt], lambda idx: fab.value(idx[:-1], sel(idx[-1])))
        if not isinstance(out.value, NDArray):
            ctx.oblige("post.value", False, "P", note="result is not an array")
            return
        ctx.oblige("post.value", veq(ctx, out.value, exp), "P")
        if inp.get("before") is not None:
            ctx.oblige("frame.field-selection-argument-unchanged", veq(ctx, list(inp["farg"].items), inp["before"]), "P")

    def replay_params(self, model):
        def g(n, d=None):
            try:
                return int(model.get(n, d))
            except (TypeError, ValueError):
                return d
        nd = self.nd
        import re
        def hdr(fn, d):
            m = re.findall(r"\(\d+, \d+, %d\) -> (-?\d+)" % d, model.get(fn, ""))
            e = re.findall(r"else -> (-?\d+)", model.get(fn, ""))
            return int(m[0]) if m else (int(e[0]) if e else 0)
        shape = [max(1, min(6, hdr("hdr_hi", d) - hdr("hdr_lo", d) + 1)) for d in range(nd)]
        e = re.findall(r"else -> (-?\d+)", model.get("hdr_nc", ""))
        nc = max(1, min(8, int(e[0]) if e else 3))
        if self.form == "int":
            sel = ["int", g("k", 0)]
        elif self.form.startswith("slice"):
            sel = ["slice", g("sa") if ":a:" in self.form else None, g("sb") if "b:" in self.form else None,
                   g("ss") if self.form.endswith("s") else None]
        elif self.form.startswith("list") and self.form != "listN":
            sel = ["list"] + [g(f"f{t}", t) for t in range(int(self.form[4:]))]
        else:
            sel = ["list", 0]
        return {"kind": "single", "ndims": nd, "box": shape, "nf": nc, "fsel": sel, "seed": 1}


def _tasks0(tier):
    out = []
    forms = ["int", "slice:::", "slice:a::", "slice::b:", "slice:a:b:", "slice:a:b:s", "slice:::s"]
    for nd in (2, 3):
        for fn, fs in (("mp_read_box_single_field", ["int"]),
                       ("mp_read_box_slice_field", forms[1:]),
                       ("mp_read_box_index_field", ["list1", "list2", "list3", "listN"])):
            for f in fs:
                out.append(Reader(fn, nd, f))
    from props.C01_api import api_tasks
    out += api_tasks(tier)
    return out


def canaries(tier):
    f = "amr_kitchen/plotfile_cooker.py"
    cs = [("single: order F->C", [(f, "return data.reshape(shape[:-1], order='F')", "return data.reshape(shape[:-1], order='C')")],
           ["mp_read_box_single_field[nd=3,int]"]),
          ("slice: drop step", [(f, "return data[..., ::step]", "return data")], ["mp_read_box_slice_field[nd=3,slice:a:b:s]"]),
          ("index: wrong skip", [(f, "bf.seek(np.prod(shape[:-1]) * args[2][0] * 8, 1)", "bf.seek(np.prod(shape[:-1]) * args[2][-1] * 8, 1)")],
           ["mp_read_box_index_field[nd=3,list2]"])]
    from props.C01_api import api_canaries
    return (cs if tier == "thorough" else cs[:2]) + api_canaries()


# ------------------------------------------------------------------------------------------------------------
# bounded run-time layer: the executable top-level contract  pck[fsel][lv][bsel] == spec_read(PF, fsel, lv, bsel)

SCENARIO_TIMEOUT = 240


def scenarios(tier, seed):
    n = 6 if tier == "quick" else 16
    out = []
    for i in range(n):
        out.append({"kind": "sweep", "seed": seed * 1000 + i, "ndims": 3 if i % 3 else 2,
                    "nf": [3, 5, 1, 8][i % 4], "nlevels": 1 + i % 3, "nfiles": 1 + (i % 3),
                    "layout": ["shuffled", "monotone", "roundrobin"][i % 3] if i % 5 else "shuffled"})
    out.append({"kind": "sweep", "seed": seed * 1000 + 40, "ndims": 3, "nf": 3, "nlevels": 2, "nfiles": 2, "layout": "shuffled",
                "n0": [9, 8, 8]})        # one-cell-thick boxes
    return out


def run_scenario(p, wd):
    from harness.rt_reader import run_reader_scenario
    return run_reader_scenario(p, wd)



def tasks(tier):
    # the FAB header parsers / formatter (real bodies on canonical header text): the obligations behind the header contracts
    from props.parsers import parser_tasks
    return _tasks0(tier) + parser_tasks("C01", nds=(2, 3))
