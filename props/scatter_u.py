"""The scatter loops of the parents, UNBOUNDED (any number of binary files, any number of boxes per file, any number of boxes of
the level): `for ids, result in zip(<per-file id arrays>, <per-file results>): mapped[ids] = result` stores, for every file f and
position t, the t-th result of file f at box ids_f[t] - provided the id arrays are duplicate-free and disjoint (each box lies in
one file, once), which the task-construction contracts establish.  Loop invariant: after k files, box i holds the result of its
own (file, position) when its file is among the first k, and its previous value otherwise."""
import ast
import z3
from pyvc.vals import *  # noqa
from pyvc.task import FragmentTask
from pyvc.loops import LoopSpec

I, R, B = z3.IntSort(), z3.RealSort(), z3.BoolSort()


class ScatterU(FragmentTask):
    reach = "U"

    def __init__(self, prop, qual, pattern, idvar, resvar, targets, label, idcall=None, swap=False, two_d=()):
        """pattern: text of the loop header; idvar / resvar: the locals holding the per-file id arrays / results (resvar items are
        tuples when there are several targets); targets: the arrays written, in the order of the result tuple; idcall: qualified
        name of a method whose result is the per-file id arrays (instead of a local); swap: zip(results, ids); two_d: targets that
        hold a row per box"""
        self.prop, self.qual, self.pattern = prop, qual, pattern
        self.idvar, self.resvar, self.targets, self.idcall, self.swap, self.two_d = idvar, resvar, list(targets), idcall, swap, set(two_d)
        self.name = label
        self.first = self.last = lambda s: isinstance(s, ast.For) and pattern in ast.unparse(s).split("\n")[0]

    def setup(self, ex):
        ctx = ex.ctx
        F, nb, nc = z3.Int("nfiles"), z3.Int("nboxes"), z3.Int("ncols")
        N = z3.Function("NBOX_OF_FILE", I, I)
        IDS = z3.Function("IDS", I, I, I)
        HAS, OF, OT = z3.Function("IN_SOME_FILE", I, B), z3.Function("FILE_OF", I, I), z3.Function("POS_OF", I, I)
        ctx.assume(z3.And(F >= 0, nb >= 0, nc >= 1))
        f, t, i = z3.Ints("qf qt qi")
        # every (file, position) names a box of the level, and the box knows which (file, position) names it: duplicate-free, disjoint
        ctx.assume(z3.ForAll([f, t], z3.Implies(z3.And(f >= 0, f < F, t >= 0, t < N(f)),
                                               z3.And(IDS(f, t) >= 0, IDS(f, t) < nb, HAS(IDS(f, t)), OF(IDS(f, t)) == f, OT(IDS(f, t)) == t)),
                             patterns=[IDS(f, t)]))
        ctx.assume(z3.ForAll([i], z3.Implies(HAS(i), z3.And(OF(i) >= 0, OF(i) < F, OT(i) >= 0, OT(i) < N(OF(i)), IDS(OF(i), OT(i)) == i)),
                             patterns=[HAS(i)]))
        ctx.assume(z3.ForAll([f], z3.Implies(z3.And(f >= 0, f < F), N(f) >= 1), patterns=[N(f)]))

        def idarr(fk):
            fk = to_z3(fk)
            a = NDArray([N(fk)], lambda ix, fk=fk: IDS(fk, to_z3(ix[0])), "int")
            a.scatter_inverse = (lambda bi, fk=fk: z3.And(HAS(bi), OF(bi) == fk), lambda bi: OT(bi))
            return a
        idseq = SymSeq(F, lambda k, ex_=None: idarr(k), "list")
        RES, OLD = {}, {}
        for tg in self.targets:
            if tg in self.two_d:
                RES[tg], OLD[tg] = z3.Function(f"RES_{tg}", I, I, I, R), z3.Function(f"OLD_{tg}", I, I, R)
            else:
                RES[tg], OLD[tg] = z3.Function(f"RES_{tg}", I, I, R), z3.Function(f"OLD_{tg}", I, R)

        def resarr(tg, fk):
            fk = to_z3(fk)
            if tg in self.two_d:
                return NDArray([N(fk), nc], lambda ix, fk=fk: RES[tg](fk, to_z3(ix[0]), to_z3(ix[1])), "f8")
            return NDArray([N(fk)], lambda ix, fk=fk: RES[tg](fk, to_z3(ix[0])), "f8")
        if len(self.targets) == 1:
            resseq = SymSeq(F, lambda k, ex_=None: resarr(self.targets[0], k), "list")
        else:
            resseq = SymSeq(F, lambda k, ex_=None: tuple(resarr(tg, k) for tg in self.targets), "list")
        frame = {}
        for tg in self.targets:
            if tg in self.two_d:
                frame[tg] = NDArray([nb, nc], lambda ix, tg=tg: OLD[tg](to_z3(ix[0]), to_z3(ix[1])), "f8")
            else:
                frame[tg] = NDArray([nb], lambda ix, tg=tg: OLD[tg](to_z3(ix[0])), "f8")
        frame[self.resvar] = resseq
        if self.idcall is None:
            frame[self.idvar] = idseq
        else:
            self.contracts = {self.idcall: lambda ex_, a, k: idseq}
            frame.update(self.extra_frame())

        def want(tg, k):
            if tg in self.two_d:
                return NDArray([nb, nc], lambda ix: z3.If(z3.And(HAS(to_z3(ix[0])), OF(to_z3(ix[0])) < to_z3(k)),
                                                          RES[tg](OF(to_z3(ix[0])), OT(to_z3(ix[0])), to_z3(ix[1])), OLD[tg](to_z3(ix[0]), to_z3(ix[1]))), "f8")
            return NDArray([nb], lambda ix: z3.If(z3.And(HAS(to_z3(ix[0])), OF(to_z3(ix[0])) < to_z3(k)),
                                                  RES[tg](OF(to_z3(ix[0])), OT(to_z3(ix[0]))), OLD[tg](to_z3(ix[0]))), "f8")

        def template(ex_, fr, k, entry):
            return {tg: want(tg, k) for tg in self.targets}
        from pyvc.exec import loop_nodes
        fdef = ex.repo.func(self.qual)[0]
        ordn = [n for n, node in enumerate(loop_nodes(fdef)) if isinstance(node, ast.For) and self.pattern in ast.unparse(node).split("\n")[0]]
        if len(ordn) != 1:
            raise Unsupported("the scatter loop is not in this function (restructured code)")
        self.loopspecs = {(self.qual, ordn[0]): LoopSpec(template)}
        return {"frame": frame, "F": F, "N": N, "IDS": IDS, "RES": RES, "nc": nc}

    def extra_frame(self):
        return {}

    def post(self, ex, inp, out):
        ctx = ex.ctx
        ctx.oblige("raises-nothing", out.kind == "ret", "P", note=str(out.exc) if out.kind != "ret" else "")
        if out.kind != "ret":
            return
        from pyvc.ops import as_ndarray
        f, t, c = ctx.fresh("file"), ctx.fresh("pos"), ctx.fresh("col")
        ctx.add_pc(z3.And(f >= 0, f < inp["F"], t >= 0, t < inp["N"](f), c >= 0, c < inp["nc"]))
        b = inp["IDS"](f, t)
        for tg in self.targets:
            arr = as_ndarray(out.value[tg])
            if tg in self.two_d:
                ctx.oblige(f"post.{tg}: box ids_f[t] holds row t of the result of file f", to_z3(arr.elem((b, c))) == inp["RES"][tg](f, t, c), "P")
            else:
                ctx.oblige(f"post.{tg}: box ids_f[t] holds the t-th result of file f", to_z3(arr.elem((b,))) == inp["RES"][tg](f, t), "P")


class CombineScatterU(ScatterU):
    def extra_frame(self):
        return {"pck1": Record("amr_kitchen.plotfile_cooker.PlotfileCooker"), "lv": z3.Int("lv")}


def colander_scatter():
    return ScatterU("C05", "amr_kitchen.colander.colander.Colander.strain", "for file_idxs, offsets in zip(box_index_map, new_offsets)",
                    "box_index_map", "new_offsets", ["mapped_offsets"], "strain.offsets-stored-per-box[any number of files and boxes]")


def combine_scatter():
    return CombineScatterU("C06", "amr_kitchen.combine.combine.combine", "for file_idxs, offsets in zip(pck1.map_bfile_offsets(lv), new_offsets)",
                           None, "new_offsets", ["mapped_offsets"], "combine.offsets-stored-per-box[any number of files and boxes]",
                           idcall="amr_kitchen.plotfile_cooker.PlotfileCooker.map_bfile_offsets")


def cook_scatter():
    return ScatterU("C11", "amr_kitchen.chef.chef.Chef.cook", "for file_idxs, bfile_result in zip(box_index_map, output)",
                    "box_index_map", "output", ["mapped_offsets", "mapped_mins", "mapped_maxs"],
                    "cook.results-stored-per-box[any number of files and boxes]", two_d=("mapped_mins", "mapped_maxs"))


def convert_scatter():
    return ScatterU("C17", "amr_kitchen.chk2plt.chk2plt.chk2plt.convert", "for (offsets, mins, maxs), bid in zip(out, state_bin_box_ids)",
                    "state_bin_box_ids", "out", ["all_offsets_plt", "all_mins_plt", "all_maxs_plt"],
                    "convert.results-stored-per-box[any number of files and boxes]", swap=True, two_d=("all_mins_plt", "all_maxs_plt"))


def tasks(tier):
    return [colander_scatter(), combine_scatter(), cook_scatter(), convert_scatter()]
