"""C15, the iteration protocol above the per-file scanners: LevelDataStream.__iter__ hands every distinct binary file of
the level to the iterator exactly once; LevelDataIterator chains the per-file lists, element by element, and stops after
the last one."""
import z3
from pyvc.vals import *  # noqa
from pyvc.task import Task
from pyvc.vc import veq
from pyvc.exec import LIBS

PC = "amr_kitchen.plotfile_cooker."
IT = PC + "LevelDataIterator."
STR = PC + "LevelDataStream."
I = z3.IntSort()


class FileData:
    """the (proved) scanner contract's value for one file: the list of the selected components of its FABs, in disk order"""

    def __init__(self, fid, farg):
        self.fid, self.farg = fid, farg


def scanner_contract(NBF, ELEM):
    def contract(ex, args, kw):
        t = ex.as_iterable(args[0])
        fid = t[0]
        return SymSeq(NBF(to_z3(fid)), lambda q: ELEM(to_z3(fid), to_z3(q)), "list")
    return contract


class IterInit(Task):
    """LevelDataIterator.__init__: the pool is asked for scan(file, selection) of every file in the order given, the first
    file's list is being consumed from its first element."""
    prop = "C15"
    reach = "U"
    qual = IT + "__init__"
    inline = (PC + "pool_imap",)        # the generator that owns the pool: its real body

    def __init__(self):
        self.name = "LevelDataIterator.__init__"

    def setup(self, ex):
        ctx = ex.ctx
        m = z3.Int("m")
        ctx.assume(m >= 1)
        FID, NBF, ELEM = z3.Function("FID", I, I), z3.Function("NBF", I, I), z3.Function("ELEM", I, I, I)
        t = z3.Int("t_")
        ctx.assume(z3.ForAll([t], NBF(t) >= 1))          # every file named by the level header holds at least one FAB
        files = SymSeq(m, lambda i: FID(to_z3(i)), "list")
        farg = Opaque("farg", "obj")
        fn = FuncVal(PC + "mp_read_bfile_single_field")
        self.contracts = {PC + "mp_read_bfile_single_field": scanner_contract(NBF, ELEM)}
        self_ = Record(PC + "LevelDataIterator")
        return {"self": self_, "args": [fn, files, farg], "m": m, "FID": FID, "NBF": NBF, "ELEM": ELEM, "self_": self_}

    def post(self, ex, inp, out):
        ctx = ex.ctx
        ctx.oblige("raises-nothing", out.kind == "ret", "P", note=str(out.exc) if out.kind != "ret" else "")
        if out.kind != "ret":
            return
        a = inp["self_"].attrs
        it, data = a.get("iterator"), a.get("_data")
        ok = isinstance(it, SeqIter) and isinstance(data, SeqIter)
        ctx.structure("post.state-structure", ok)
        if not ok:
            return
        m, FID, NBF, ELEM = inp["m"], inp["FID"], inp["NBF"], inp["ELEM"]
        ctx.oblige("post.results-are-the-scans-of-the-files-in-order",
                   veq(ctx, it.seq, SymSeq(m, lambda i: SymSeq(NBF(FID(to_z3(i))), lambda q: ELEM(FID(to_z3(i)), to_z3(q))))), "P")
        ctx.oblige("post.first-file-taken", veq(ctx, it.pos, 1), "P")
        ctx.oblige("post.consuming-the-first-file-from-its-start",
                   zand(veq(ctx, data.seq, SymSeq(NBF(FID(0)), lambda q: ELEM(FID(0), to_z3(q)))), veq(ctx, data.pos, 0)), "P")
        ctx.structure("frame.one-pool", len([e for e in ctx.events if e[0] == "pool-created"]) == 1)
        # (pool contract, see LevelDataStream.iter: a pool only its imap iterator references can block the iteration for ever -
        # seen for this iterator under GIL contention in the consuming process)
        pool = getattr(it, "pool", None)
        if pool is not None and getattr(pool, "created_here", False):
            ctx.oblige("post.pool-outlives-the-iterator", bool(getattr(pool, "held", False)), "P",
                       note="imap iterator kept while its pool is a dead local: next() can block for ever")


class IterNext(Task):
    """LevelDataIterator.__next__ from the state 'file f, p elements of it consumed' (files f+1.. not yet taken):
         p < n_f                  -> returns element p of file f          ; new state (f, p+1)
         p == n_f and f+1 < m     -> returns element 0 of file f+1        ; new state (f+1, 1)
         p == n_f and f+1 == m    -> raises StopIteration
    so the values returned by successive calls are the concatenation of the per-file lists in file order: every box of
    every file exactly once."""
    prop = "C15"
    reach = "U"
    qual = IT + "__next__"

    def __init__(self):
        self.name = "LevelDataIterator.__next__"

    def setup(self, ex):
        ctx = ex.ctx
        m, f, p = z3.Ints("m f p")
        FID, NBF, ELEM = z3.Function("FID", I, I), z3.Function("NBF", I, I), z3.Function("ELEM", I, I, I)
        t = z3.Int("t_")
        ctx.assume(z3.ForAll([t], NBF(t) >= 1))
        ctx.assume(z3.And(m >= 1, f >= 0, f < m, p >= 0, p <= NBF(FID(f))))
        res = SymSeq(m, lambda i: SymSeq(NBF(FID(to_z3(i))), lambda q: ELEM(FID(to_z3(i)), to_z3(q)), "list"), "list")
        self_ = Record(PC + "LevelDataIterator", iterator=SeqIter(res, f + 1),
                       _data=SeqIter(SymSeq(NBF(FID(f)), lambda q: ELEM(FID(f), to_z3(q)), "list"), p))
        return {"self": self_, "args": [], "m": m, "f": f, "p": p, "FID": FID, "NBF": NBF, "ELEM": ELEM, "self_": self_}

    def post(self, ex, inp, out):
        ctx = ex.ctx
        m, f, p, FID, NBF, ELEM = (inp[k] for k in ("m", "f", "p", "FID", "NBF", "ELEM"))
        n_f = NBF(FID(f))
        if out.kind == "exc":
            ctx.oblige("post.stops-only-after-the-last-box-of-the-last-file",
                       zand(out.exc.etype == "StopIteration", p == n_f, f + 1 == m), "P", note=str(out.exc))
            return
        ctx.oblige("post.does-not-return-past-the-end", z3.Not(z3.And(p == n_f, f + 1 == m)), "P")
        a = inp["self_"].attrs
        it, data = a.get("iterator"), a.get("_data")
        ok = isinstance(it, SeqIter) and isinstance(data, SeqIter)
        ctx.structure("post.state-structure", ok)
        if not ok:
            return
        inside = p < n_f
        nf, np_ = z3.If(inside, f, f + 1), z3.If(inside, p + 1, 1)
        ctx.oblige("post.value", veq(ctx, out.value, z3.If(inside, ELEM(FID(f), p), ELEM(FID(f + 1), 0))), "P")
        ctx.oblige("post.state.files-taken", veq(ctx, it.pos, nf + 1), "P")
        ctx.oblige("post.state.position-in-file", veq(ctx, data.pos, np_), "P")
        ctx.oblige("post.state.current-file-list", veq(ctx, data.seq, SymSeq(NBF(FID(nf)), lambda q: ELEM(FID(nf), to_z3(q)))), "P")


class UniqueVal:
    """np.unique(x) for a sequence of file names: a duplicate-free enumeration of the set of values of x (numpy contract)"""

    def __init__(self, src):
        self.src = src


class StreamIter(Task):
    """LevelDataStream.__iter__: the iterator gets the level's per-file scanner, the field selection, and each DISTINCT file
    of the level exactly once (np.unique contract: duplicate-free enumeration of the value set)."""
    prop = "C15"
    reach = "U"
    qual = STR + "__iter__"

    def __init__(self):
        self.name = "LevelDataStream.__iter__"

    def setup(self, ex):
        n = z3.Int("n")
        FILE = z3.Function("FILE", I, I)
        bfiles = NDArray([n], lambda ix: FILE(to_z3(ix[0])), "int")
        farg = Opaque("farg", "obj")
        fn = FuncVal(PC + "mp_read_bfile_slice_field")
        calls = []

        def ctor(ex_, args, kw):
            calls.append((list(args), dict(kw)))
            return Record(PC + "LevelDataIterator")
        self.contracts = {PC + "LevelDataIterator.__new__": ctor, PC + "LevelDataIterator": ctor}
        self.saved = LIBS.get(("numpy", "unique"))
        LIBS[("numpy", "unique")] = lambda ex_, a, k: UniqueVal(a[0])
        self_ = Record(PC + "LevelDataStream", bfiles=bfiles, farg=farg, file_fun=fn, size=n)
        return {"self": self_, "args": [], "calls": calls, "bfiles": bfiles, "farg": farg, "fn": fn}

    def post(self, ex, inp, out):
        ctx = ex.ctx
        if self.saved is not None:
            LIBS[("numpy", "unique")] = self.saved
        ctx.oblige("raises-nothing", out.kind == "ret", "P", note=str(out.exc) if out.kind != "ret" else "")
        if out.kind != "ret":
            return
        c = inp["calls"]
        ok = len(c) == 1 and len(c[0][0]) == 3 and isinstance(out.value, Record)
        ctx.structure("post.one-iterator-built-and-returned", ok)
        if not ok:
            return
        fun, files, farg = c[0][0]
        ctx.oblige("post.per-file-scanner-of-the-stream", fun == inp["fn"], "P")
        ctx.oblige("post.field-selection-of-the-stream", farg is inp["farg"], "P")
        if isinstance(files, UniqueVal) and files.src is inp["bfiles"]:
            ctx.oblige("post.each-distinct-file-exactly-once", True, "P")      # by the numpy contract of np.unique
            return
        # any other expression: decide it semantically where the executor can enumerate it, else stay undecided
        from pyvc.ops import as_ndarray, getitem
        if isinstance(files, (NDArray, SymSeq, list, Vec)):
            arr = as_ndarray(files) if not isinstance(files, SymSeq) else None
            ln = arr.shape[0] if arr is not None else files.length
            get = (lambda i: arr.elem((i,))) if arr is not None else (lambda i: files.get(i, ex))
            i, j = ctx.fresh("i"), ctx.fresh("j")
            ctx.oblige("post.each-distinct-file-exactly-once",
                       z3.Implies(z3.And(i >= 0, i < j, j < to_z3(ln)), to_z3(get(i)) != to_z3(get(j))), "P",
                       note="a file of the level is handed to the iterator twice")
            return
        raise Unsupported("the file list handed to LevelDataIterator is neither np.unique(self.bfiles) nor an enumerable sequence")


def api_tasks(tier):
    return [IterInit(), IterNext(), StreamIter()]


def api_canaries():
    f = "amr_kitchen/plotfile_cooker.py"
    return [("LevelDataIterator: file switch drops the first box of the next file",
             [(f, "            self._data = self.iterator.__next__().__iter__()\n            return self._data.__next__()",
               "            self._data = self.iterator.__next__().__iter__()\n            self._data.__next__()\n            return self._data.__next__()")],
             ["LevelDataIterator.__next__"]),
            ("LevelDataStream.__iter__: all files of the level (with repetitions) handed to the iterator",
             [(f, "                                 np.unique(self.bfiles),", "                                 self.bfiles,")],
             ["LevelDataStream.__iter__"])]


def tasks(tier):
    return api_tasks(tier)


def canaries(tier):
    return api_canaries()
