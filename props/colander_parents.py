"""Colander.strain, parent bookkeeping (C05): the per-file task lists and the scatter of the returned offsets."""
import ast
import z3
from pyvc.vals import *  # noqa
from pyvc.task import FragmentTask
from pyvc.vc import veq

CO = "amr_kitchen.colander.colander."
I = z3.IntSort()


def _src(pattern):
    return lambda s: pattern in ast.unparse(s).split("\n")[0]


FILES = ["plt/Level_0/Cell_D_00001", "plt/Level_0/Cell_D_00000", "plt/Level_0/Cell_D_00001"]


class StrainTask(FragmentTask):
    """Body of the loop over the binary files of a level (mechanically extracted).  For the boxes B of the current file:
      * the ids recorded in box_index_map for this file and the task's 'cell_indexes' are the SAME sequence, made of exactly
        the boxes of B (the returned offsets are stored by box_index_map, position by position),
      * position t of the task's index ranges and read offsets belongs to box cell_indexes[t],
      * the file read is the level's binary file, the file written has the same level directory and base name under outdir.
    Skeleton: 3 boxes over 2 interleaved files (concrete names), symbolic offsets and index ranges."""
    prop = "C05"
    reach = "S"
    qual = CO + "Colander.strain"
    first = staticmethod(_src("bf_indexes = box_indexes["))
    last = staticmethod(_src("mp_calls.append(mp_call)"))

    def __init__(self, which):
        self.which = which
        self.name = f"strain.task-of-binary-file[{which.split('/')[-1]}]"

    def setup(self, ex):
        ctx = ex.ctx
        off = [z3.Int(f"off{i}") for i in range(3)]
        ctx.assume(z3.And(z3.Distinct(*off), *[x >= 0 for x in off]))
        ILO, IHI = z3.Function("ILO", I, I, I), z3.Function("IHI", I, I, I)
        indexes = [[[ILO(i, d) for d in range(3)], [IHI(i, d) for d in range(3)]] for i in range(3)]
        cells = [{"files": list(FILES), "offsets": list(off), "indexes": indexes}]
        self_ = Record(CO + "Colander", cells=cells, outdir="out", nvars=z3.Int("nvars"), kept_fields=Opaque("kept", "obj"),
                       pfile="plt", cell_paths=["Level_0"])
        frame = {"self": self_, "lv": 0, "level_files": Vec(list(FILES), "array"), "ncells": 3, "box_indexes": Vec([0, 1, 2], "array"),
                 "mp_calls": [], "box_index_map": [], "bfile_r": self.which}
        B = [i for i in range(3) if FILES[i] == self.which]
        return {"frame": frame, "B": B, "off": off, "indexes": indexes}

    def post(self, ex, inp, out):
        ctx = ex.ctx
        ctx.oblige("raises-nothing", out.kind == "ret", "P", note=str(out.exc) if out.kind != "ret" else "")
        if out.kind != "ret":
            return
        v, B = out.value, inp["B"]
        calls, bmap = v.get("mp_calls"), v.get("box_index_map")
        ok = isinstance(calls, list) and len(calls) == 1 and isinstance(calls[0], dict) and isinstance(bmap, list) and len(bmap) == 1
        ctx.structure("post.one-task-and-one-id-list-appended", ok)
        if not ok:
            return
        call = calls[0]
        ids_map = ex.as_iterable(bmap[0])
        ids = ex.as_iterable(call.get("cell_indexes"))
        okn = len(ids) == len(B) and len(ids_map) == len(B)
        ctx.oblige("post.as-many-ids-as-boxes-in-the-file", okn, "P")
        if not okn:
            return
        ctx.oblige("post.task-ids-are-the-ids-the-offsets-are-stored-by", zand(*[to_z3(a) == to_z3(b) for a, b in zip(ids, ids_map)]), "P")
        ctx.oblige("post.ids-are-the-boxes-of-the-file", zand(*[zor(*[to_z3(b) == c for c in B]) for b in ids],
                                                             z3.Distinct(*[to_z3(b) for b in ids]) if len(ids) > 1 else True), "P")
        from pyvc.libnp import np_array
        for key, label, expect in (("box_indexes", "index range", lambda c: np_array(ex, [inp["indexes"][c]], {})),
                                   ("offsets_r", "read offset", lambda c: inp["off"][c])):
            lst = ex.as_iterable(call.get(key))
            okl = isinstance(lst, list) and len(lst) == len(ids)
            ctx.oblige(f"post.{label}.one-per-box", okl, "P")
            if not okl:
                continue
            for t in range(len(ids)):
                for c in B:
                    ctx.oblige(f"post.{label}[{t}]-belongs-to-box-cell_indexes[{t}]",
                               z3.Implies(to_z3(ids[t]) == c, to_z3(veq(ctx, lst[t], expect(c)))), "P")
        from pyvc.ops import compare
        from pyvc.libos import os_getcwd, join2
        cwd = os_getcwd(ex, [], {})
        ctx.oblige("post.reads-the-level-binary-file", compare(ex, "Eq", call.get("bfile_r"), join2(ex, cwd, self.which)), "P", note=str(call.get("bfile_r")))
        want_w = join2(ex, join2(ex, join2(ex, cwd, "out"), "Level_0"), self.which.split("/")[-1])
        ctx.oblige("post.writes-the-same-name-under-the-output-level-directory", compare(ex, "Eq", call.get("bfile_w"), want_w), "P",
                   note=str(call.get("bfile_w")))
        ctx.oblige("post.level-size-and-selection-passed-through",
                   zand(veq(ctx, call.get("ncells"), 3), call.get("kept_fields") is inp["frame"]["self"].attrs["kept_fields"]), "P")


class StrainTaskList(FragmentTask):
    """The statements of Colander.strain that build the task list of ONE level (from the empty list to the end of the loop over
    the level's binary files; same skeleton): one task per distinct binary file, each naming ITS file to read and ITS file to
    write, and the id lists of box_index_map in the same order - tasks are separate objects."""
    prop = "C05"
    reach = "S"
    qual = CO + "Colander.strain"
    first = staticmethod(FragmentTask.assigns("mp_calls"))
    which = None

    @staticmethod
    def last(s):
        return isinstance(s, ast.For) and "np.unique(level_files)" in ast.unparse(s.iter)

    def __init__(self):
        self.name = "strain.task-list-of-a-level"

    def setup(self, ex):
        inp = StrainTask.setup(self, ex)
        for k in ("bfile_r", "mp_calls", "box_index_map"):
            inp["frame"].pop(k, None)
        return inp

    def post(self, ex, inp, out):
        ctx = ex.ctx
        ctx.oblige("raises-nothing", out.kind == "ret", "P", note=str(out.exc) if out.kind != "ret" else "")
        if out.kind != "ret":
            return
        calls, bmap = out.value.get("mp_calls"), out.value.get("box_index_map")
        files = sorted(set(FILES))
        ok = isinstance(calls, list) and len(calls) == len(files) and all(isinstance(c, dict) for c in calls) and \
            isinstance(bmap, list) and len(bmap) == len(files)
        ctx.structure("post.one-task-and-one-id-list-per-binary-file-of-the-level", ok)
        from pyvc.ops import compare
        from pyvc.libos import os_getcwd, join2
        cwd = os_getcwd(ex, [], {})
        for k, f in enumerate(files):
            ctx.oblige(f"post.task-{k}-reads-its-own-file", compare(ex, "Eq", calls[k].get("bfile_r"), join2(ex, cwd, f)), "P",
                       note=str(calls[k].get("bfile_r")))
            want_w = join2(ex, join2(ex, join2(ex, cwd, "out"), "Level_0"), f.split("/")[-1])
            ctx.oblige(f"post.task-{k}-writes-its-own-file", compare(ex, "Eq", calls[k].get("bfile_w"), want_w), "P",
                       note=str(calls[k].get("bfile_w")))
            B = [i for i in range(3) if FILES[i] == f]
            ids = ex.as_iterable(bmap[k])
            ctx.oblige(f"post.id-list-{k}-holds-the-boxes-of-file-{k}", len(ids) == len(B) and
                       zand(*[zor(*[to_z3(b) == c for c in B]) for b in ids]), "P")


class StrainScatter(FragmentTask):
    """The loop storing the offsets the workers returned: the t-th offset of the task of file f goes to box ids_f[t]."""
    prop = "C05"
    reach = "S"
    qual = CO + "Colander.strain"
    # from the pool call that collects the workers' results to the loop that stores them (the worker is its interface: task f
    # returns the f-th offset list; the collection order is the pool's contract)
    first = staticmethod(lambda s: isinstance(s, ast.With) and "self.strainer" in ast.unparse(s))
    last = staticmethod(_src("for file_idxs, offsets in zip(box_index_map, new_offsets)"))

    def __init__(self):
        self.name = "strain.offsets-stored-per-box"

    def setup(self, ex):
        ctx = ex.ctx
        a, b = z3.Ints("id_a id_b")
        ctx.assume(z3.Or(z3.And(a == 0, b == 2), z3.And(a == 2, b == 0)))
        offs = [[z3.Int("new_f0_0"), z3.Int("new_f0_1")], [z3.Int("new_f1_0")]]
        def strainer(ex_, args, kw):
            return list(offs[args[0]])
        strainer._pyvc_builtin = True
        self_ = Record(CO + "Colander", strainer=strainer, boxes=[[None, None, None]])
        frame = {"box_index_map": [Vec([a, b], "array"), Vec([1], "array")], "mp_calls": [0, 1], "self": self_, "lv": 0}
        return {"frame": frame, "ids": [[a, b], [1]], "offs": offs}

    def post(self, ex, inp, out):
        ctx = ex.ctx
        ctx.oblige("raises-nothing", out.kind == "ret", "P", note=str(out.exc) if out.kind != "ret" else "")
        if out.kind != "ret":
            return
        from pyvc.ops import as_ndarray
        mo = as_ndarray(out.value["mapped_offsets"])
        for f, ids in enumerate(inp["ids"]):
            for t, bid in enumerate(ids):
                for c in range(3):
                    hyp = to_z3(bid) == c if is_z3(bid) else (bid == c)
                    if hyp is False:
                        continue
                    ctx.oblige(f"post.offset-of-task{f}[{t}]-stored-for-its-box", z3.Implies(hyp, to_z3(mo.elem((c,))) == inp["offs"][f][t]), "P")


class StrainLevel(FragmentTask):
    """The body of the level loop of Colander.strain as a whole, from its first statement to the loop storing the new offsets
    (real code; skeleton: 3 boxes over 2 interleaved files, symbolic distinct read offsets and index ranges).  The strainer is
    its contract: for the t-th listed box it reads the FAB at offsets_r[t] of bfile_r as a box of index range box_indexes[t] and
    returns, at position t, the offset it wrote it at.  Whatever bookkeeping lies in between: every box b of the level is read
    by exactly one task entry - with b's own file, read offset and index range - and the offset stored for b is the one returned
    for that entry; every output file is written by one task only."""
    prop = "C05"
    reach = "S"
    qual = CO + "Colander.strain"
    first = staticmethod(FragmentTask.assigns("level_files"))
    last = staticmethod(_src("for file_idxs, offsets in zip(box_index_map, new_offsets)"))

    def __init__(self):
        self.name = "strain.level-body"

    def setup(self, ex):
        ctx = ex.ctx
        off = [z3.Int(f"off{i}") for i in range(3)]
        ctx.assume(z3.And(z3.Distinct(*off), *[x >= 0 for x in off]))
        ILO, IHI = z3.Function("ILO", I, I, I), z3.Function("IHI", I, I, I)
        indexes = [[[ILO(i, d) for d in range(3)], [IHI(i, d) for d in range(3)]] for i in range(3)]
        NEW = z3.Function("NEWOFF", I, I, I)
        calls = []

        def strainer(ex_, args, kw):
            call = args[0]
            k = len(calls)
            offs = ex_.as_iterable(call.get("offsets_r"))
            rows = ex_.as_iterable(call.get("box_indexes"))
            calls.append({"r": call.get("bfile_r"), "w": call.get("bfile_w"), "offs": list(offs), "rows": list(rows)})
            if len(offs) != len(rows):
                raise SymRaise("ValueError", "zip of lists of different lengths would drop boxes")
            return [NEW(k, t) for t in range(len(offs))]
        strainer._pyvc_builtin = True
        cells = [{"files": list(FILES), "offsets": list(off), "indexes": indexes}]
        self_ = Record(CO + "Colander", cells=cells, outdir="out", nvars=z3.Int("nvars"), kept_fields=Opaque("kept", "obj"),
                       pfile="plt", cell_paths=["Level_0"], strainer=strainer, boxes=[[None, None, None]], limit_level=0)
        return {"frame": {"self": self_, "lv": 0}, "off": off, "indexes": indexes, "NEW": NEW, "calls": calls}

    def post(self, ex, inp, out):
        ctx = ex.ctx
        ctx.oblige("raises-nothing", out.kind == "ret", "P", note=str(out.exc) if out.kind != "ret" else "")
        if out.kind != "ret":
            return
        from pyvc.ops import as_ndarray, compare
        from pyvc.libnp import np_array
        from pyvc.libos import os_getcwd, join2
        cwd = os_getcwd(ex, [], {})
        mo = as_ndarray(out.value["mapped_offsets"])
        calls, off = inp["calls"], inp["off"]
        ws = [str(c["w"]) for c in calls]
        ctx.oblige("post.no-output-file-written-by-two-tasks", len(set(ws)) == len(ws), "P", note=str(ws))
        for b in range(3):
            rfile = join2(ex, cwd, FILES[b])
            wfile = join2(ex, join2(ex, join2(ex, cwd, "out"), "Level_0"), FILES[b].split("/")[-1])
            hits = []
            for k, c in enumerate(calls):
                same_files = compare(ex, "Eq", c["r"], rfile) is True and compare(ex, "Eq", c["w"], wfile) is True
                for t in range(len(c["offs"])):
                    reads_b = zand(to_z3(c["offs"][t]) == off[b], to_z3(veq(ctx, c["rows"][t], np_array(ex, [inp["indexes"][b]], {})))) if same_files else False
                    hits.append((reads_b, inp["NEW"](k, t)))
            conds = [to_z3(h) for h, _ in hits]
            ctx.oblige(f"post.box-{b}-is-read-by-exactly-one-task-entry-with-its-own-file-offset-and-range",
                       z3.PbEq([(c, 1) for c in conds], 1) if conds else False, "P")
            ctx.oblige(f"post.box-{b}-gets-the-offset-written-for-it",
                       zor(*[zand(h, to_z3(mo.elem((b,))) == n) for h, n in hits]) if hits else False, "P")


def parent_tasks(tier):
    from props.scatter_u import colander_scatter
    return [StrainTask(FILES[0]), StrainTask(FILES[1]), StrainTaskList(), StrainScatter(), StrainLevel(), colander_scatter()]


def parent_canaries():
    f = "amr_kitchen/colander/colander.py"
    return [("strain: the task's boxes put in disk order, the stored ids left in box order",
             [(f, '                mp_call = {"bfile_r":bfile_r,\n                           "bfile_w":bfile_w,\n                           "box_indexes":box_slices,\n                           "cell_indexes":bf_indexes,\n                           "offsets_r":offsets_r,',
               '                disk_order = np.argsort(offsets_r)\n                mp_call = {"bfile_r":bfile_r,\n                           "bfile_w":bfile_w,\n                           "box_indexes":box_slices[disk_order],\n                           "cell_indexes":bf_indexes[disk_order],\n                           "offsets_r":offsets_r[disk_order],')],
             ["strain.task-of-binary-file[Cell_D_00001]"]),
            ("strain: offsets stored at the reversed ids",
             [(f, "                mapped_offsets[file_idxs] = offsets", "                mapped_offsets[file_idxs[::-1]] = offsets")],
             ["strain.offsets-stored-per-box"])]


def tasks(tier):
    return parent_tasks(tier)


def canaries(tier):
    return parent_canaries()
