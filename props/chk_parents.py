"""chk2plt.convert, the per-state-file task construction (C17): every per-box list handed to the worker is indexed by the
same, state-offset-sorted, box ids."""
import ast
import z3
from pyvc.vals import *  # noqa
from pyvc.task import FragmentTask
from pyvc.vc import veq

CK = "amr_kitchen.chk2plt.chk2plt."
I = z3.IntSort()


def _src(pattern):
    return lambda s: pattern in ast.unparse(s).split("\n")[0]


class ConvertTask(FragmentTask):
    """Body of the loop over the state binary files of a level (mechanically extracted; the surrounding level loop, directory
    creation and header writing are dropped).  For the boxes B stored in the current state file:
      * the recorded box ids are a permutation of B in increasing state offset (the worker reads the state file front to
        back: its t-th FAB is box bids[t]),
      * position t of EVERY per-box argument (index range, gradp file and offset, I_R file and offset) belongs to box bids[t],
      * the plotfile binary named in the level header for each box of B is the state file's name with 'state' -> 'Cell', which
        is also the file the worker writes.
    Skeleton: 3 boxes over 2 state files (concrete names), symbolic offsets and index ranges."""
    prop = "C17"
    reach = "S"
    qual = CK + "chk2plt.convert"
    first = staticmethod(_src("bids = lv_bids["))
    last = staticmethod(_src("mp_args.append(mp_call)"))

    def __init__(self, which):
        self.which = which
        self.name = f"convert.task-of-state-file[{which}]"

    def setup(self, ex):
        ctx = ex.ctx
        spaths = ["state_D_00000", "state_D_00001", "state_D_00000"]
        gpaths = ["gradp_D_00001", "gradp_D_00000", "gradp_D_00001"]
        ipaths = ["I_R_D_00000", "I_R_D_00000", "I_R_D_00001"]
        so = [z3.Int(f"soff{i}") for i in range(3)]
        go = [z3.Int(f"goff{i}") for i in range(3)]
        io = [z3.Int(f"ioff{i}") for i in range(3)]
        ctx.assume(z3.And(z3.Distinct(*so), *[x >= 0 for x in so + go + io]))
        ILO, IHI = z3.Function("ILO", I, I, I), z3.Function("IHI", I, I, I)
        indices = [[[ILO(i, d) for d in range(3)], [IHI(i, d) for d in range(3)]] for i in range(3)]
        boxes = {"state_paths": Vec(spaths, "array"), "gradp_paths": Vec(gpaths, "array"), "I_R_paths": Vec(ipaths, "array"),
                 "state_offsets": Vec(so, "array"), "gradp_offsets": Vec(go, "array"), "I_R_offsets": Vec(io, "array"),
                 "indices": Vec(indices, "array")}
        self_ = Record(CK + "chk2plt", boxes=[boxes], nboxes=[3], state_field_indices=Opaque("sfi", "obj"), do_gradp=True,
                       do_species_reactions=True, floor_massfracs=False, chkdir="chk", pltdir="plt")
        frame = {"self": self_, "level": 0, "lv_chk_root": "chk/Level_0", "lv_plt_root": "plt/Level_0",
                 "all_bin_gradp": boxes["gradp_paths"], "all_bin_I_R": boxes["I_R_paths"], "all_box_indices": boxes["indices"],
                 "all_binfiles_plt": Vec([None, None, None], "array"), "lv_bids": Vec([0, 1, 2], "array"),
                 "state_bin_box_ids": [], "mp_args": [], "state_bin": self.which}
        B = [i for i in range(3) if spaths[i] == self.which]
        return {"frame": frame, "B": B, "so": so, "go": go, "io": io, "gpaths": gpaths, "ipaths": ipaths, "indices": indices}

    def post(self, ex, inp, out):
        ctx = ex.ctx
        ctx.oblige("raises-nothing", out.kind == "ret", "P", note=str(out.exc) if out.kind != "ret" else "")
        if out.kind != "ret":
            return
        v = out.value
        B = inp["B"]
        ids, args = v.get("state_bin_box_ids"), v.get("mp_args")
        ok = isinstance(ids, list) and len(ids) == 1 and isinstance(args, list) and len(args) == 1 and isinstance(args[0], list) \
            and len(args[0]) == 11
        ctx.structure("post.one-task-and-one-id-list-appended", ok)
        if not ok:
            return
        from pyvc.ops import as_ndarray
        bids = ex.as_iterable(ids[0])
        call = args[0]
        ctx.oblige("post.as-many-ids-as-boxes-in-the-file", len(bids) == len(B), "P")
        if len(bids) != len(B):
            return
        so, go, io = inp["so"], inp["go"], inp["io"]
        pick = lambda arr, k: z3.Sum([z3.If(to_z3(k) == c, arr[c], 0) for c in range(3)])
        ctx.oblige("post.ids-are-the-boxes-of-the-file", zand(*[zor(*[to_z3(b) == c for c in B]) for b in bids],
                                                             z3.Distinct(*[to_z3(b) for b in bids]) if len(bids) > 1 else True), "P")
        for t in range(len(bids) - 1):
            ctx.oblige(f"post.ids-in-increasing-state-offset[{t}]", pick(so, bids[t]) < pick(so, bids[t + 1]), "P")
        from pyvc.ops import compare

        def same(a, b):
            if isinstance(b, str):
                return compare(ex, "Eq", a, b)
            return veq(ctx, a, b)
        ctx.oblige("post.state-file-path", same(call[0], "chk/Level_0/" + self.which), "P", note=str(call[0]))
        ctx.oblige("post.plotfile-binary-path", same(call[6], "plt/Level_0/" + self.which.replace("state", "Cell")), "P", note=str(call[6]))
        per_box = {1: ("gradp path", lambda c: "chk/Level_0/" + inp["gpaths"][c]), 2: ("I_R path", lambda c: "chk/Level_0/" + inp["ipaths"][c]),
                   3: ("index range", lambda c: inp["indices"][c]), 4: ("gradp offset", lambda c: go[c]), 5: ("I_R offset", lambda c: io[c])}
        for pos, (label, expect) in per_box.items():
            lst = ex.as_iterable(call[pos])
            okl = isinstance(lst, list) and len(lst) == len(bids)
            ctx.oblige(f"post.{label}.one-per-box", okl, "P")
            if not okl:
                continue
            for t in range(len(bids)):
                for c in B:
                    ctx.oblige(f"post.{label}[{t}]-belongs-to-box-bids[{t}]",
                               z3.Implies(to_z3(bids[t]) == c, to_z3(same(lst[t], expect(c)))), "P")
        names = ex.as_iterable(v.get("all_binfiles_plt"))
        for c in range(3):
            want = self.which.replace("state", "Cell") if c in B else None
            ctx.oblige(f"post.level-header-file-of-box-{c}", names[c] == want, "P", note=f"{names[c]} vs {want}")


class ConvertLevel(FragmentTask):
    """The body of the level loop of chk2plt.convert as a whole, from its first statement to the loop storing the workers'
    results (real code; skeleton: 3 boxes over 2 state files, gradp and I_R distributed differently; symbolic distinct state
    offsets, index ranges, gradp / I_R offsets).  The worker is its contract: it reads ITS state file front to back, takes the
    t-th entry of every per-box argument for the t-th FAB it meets, writes to b_plt, and returns offsets / minima / maxima in
    that order.  Whatever bookkeeping lies in between: for every box b, with r its rank by state offset among the boxes of its
    state file, entry r of that file's task carries b's index range, gradp file / offset and I_R file / offset; the level header
    names for b the file the task writes and the offset / extrema returned at position r."""
    prop = "C17"
    reach = "S"
    qual = CK + "chk2plt.convert"
    first = staticmethod(FragmentTask.assigns("lv_chk_root"))
    last = staticmethod(lambda s: isinstance(s, ast.With) and "write_plt_bin_from_chk" in ast.unparse(s))

    def __init__(self):
        self.name = "convert.level-body"

    def setup(self, ex):
        ctx = ex.ctx
        R = z3.RealSort()
        spaths = ["state_D_00000", "state_D_00001", "state_D_00000"]
        gpaths = ["gradp_D_00001", "gradp_D_00000", "gradp_D_00001"]
        ipaths = ["I_R_D_00000", "I_R_D_00000", "I_R_D_00001"]
        so = [z3.Int(f"soff{i}") for i in range(3)]
        go = [z3.Int(f"goff{i}") for i in range(3)]
        io = [z3.Int(f"ioff{i}") for i in range(3)]
        ctx.assume(z3.And(z3.Distinct(*so), *[x >= 0 for x in so + go + io]))
        ILO, IHI = z3.Function("ILO", I, I, I), z3.Function("IHI", I, I, I)
        indices = [[[ILO(i, d) for d in range(3)], [IHI(i, d) for d in range(3)]] for i in range(3)]
        boxes = {"state_paths": Vec(spaths, "array"), "gradp_paths": Vec(gpaths, "array"), "I_R_paths": Vec(ipaths, "array"),
                 "state_offsets": Vec(so, "array"), "gradp_offsets": Vec(go, "array"), "I_R_offsets": Vec(io, "array"),
                 "indices": Vec(indices, "array")}
        NEW = z3.Function("NEWOFF", I, I, R)
        MN, MX = z3.Function("WMIN", I, I, I, R), z3.Function("WMAX", I, I, I, R)
        files = sorted(set(spaths))
        calls = {}

        def worker(ex_, args, kw):
            a = args[0]
            sf = str(a[0]).split("/")[-1]
            if sf not in files or sf in calls:
                raise SymRaise("ValueError", f"task for {sf}: not a state file of the level, or a second task for it")
            calls[sf] = a
            fi, n = files.index(sf), sum(1 for x in spaths if x == sf)
            return (Vec([NEW(fi, t) for t in range(n)], "array"),
                    NDArray([n, 2], lambda ix, fi=fi: MN(fi, to_z3(ix[0]), to_z3(ix[1])), "f8"),
                    NDArray([n, 2], lambda ix, fi=fi: MX(fi, to_z3(ix[0]), to_z3(ix[1])), "f8"))
        from pyvc.task import require_return_arity
        require_return_arity(ex, [CK + "write_plt_bin_from_chk"], 3)
        self.contracts = {CK + "write_plt_bin_from_chk": worker}
        self_ = Record(CK + "chk2plt", boxes=[boxes], nboxes=[3], state_field_indices=Opaque("sfi", "obj"), do_gradp=True,
                       do_species_reactions=True, floor_massfracs=False, chkdir="chk", pltdir="plt", nfields_out=2, max_level=0)
        return {"frame": {"self": self_, "level": 0}, "so": so, "go": go, "io": io, "spaths": spaths, "gpaths": gpaths, "ipaths": ipaths,
                "indices": indices, "NEW": NEW, "MN": MN, "MX": MX, "files": files, "calls": calls}

    def post(self, ex, inp, out):
        ctx = ex.ctx
        ctx.oblige("raises-nothing", out.kind == "ret", "P", note=str(out.exc) if out.kind != "ret" else "")
        if out.kind != "ret":
            return
        from pyvc.ops import as_ndarray, compare
        v, calls, files, so = out.value, inp["calls"], inp["files"], inp["so"]
        ctx.oblige("post.one-task-per-state-file", sorted(calls) == files, "P", note=str(sorted(calls)))
        if sorted(calls) != files:
            return
        ao, am, ax = as_ndarray(v["all_offsets_plt"]), as_ndarray(v["all_mins_plt"]), as_ndarray(v["all_maxs_plt"])
        names = ex.as_iterable(v["all_binfiles_plt"])

        def same(a, b):
            return compare(ex, "Eq", a, b) if isinstance(b, str) else veq(ctx, a, b)
        for b in range(3):
            sf = inp["spaths"][b]
            fi = files.index(sf)
            a = calls[sf]
            peers = [c for c in range(3) if inp["spaths"][c] == sf]
            ctx.oblige(f"post.task-of-{sf}-writes-the-file-named-for-its-boxes", zand(same(a[6], "plt/Level_0/" + sf.replace("state", "Cell")),
                                                                                  names[b] == sf.replace("state", "Cell")), "P", note=f"{a[6]} / {names[b]}")
            per_box = {1: ("gradp-file", "chk/Level_0/" + inp["gpaths"][b]), 2: ("I_R-file", "chk/Level_0/" + inp["ipaths"][b]),
                       3: ("index-range", inp["indices"][b]), 4: ("gradp-offset", inp["go"][b]), 5: ("I_R-offset", inp["io"][b])}
            lists = {pos: ex.as_iterable(a[pos]) for pos in per_box}
            okl = all(isinstance(l, list) and len(l) == len(peers) for l in lists.values())
            ctx.oblige(f"post.task-of-{sf}-has-one-entry-per-box-of-the-file", okl, "P")
            if not okl:
                continue
            for r in range(len(peers)):
                # b has rank r among its peers (by state offset)
                hyp = z3.Sum([z3.If(so[c] < so[b], 1, 0) for c in peers if c != b] + [z3.IntVal(0)]) == r
                for pos, (label, want) in per_box.items():
                    ctx.oblige(f"post.box-{b}.{label}-at-its-rank-in-the-state-file", z3.Implies(hyp, to_z3(same(lists[pos][r], want))), "P")
                ctx.oblige(f"post.box-{b}-gets-the-offset-of-its-own-fab", z3.Implies(hyp, to_z3(ao.elem((b,))) == inp["NEW"](fi, r)), "P")
                for k in range(2):
                    ctx.oblige(f"post.box-{b}-gets-the-minima-of-its-own-fab", z3.Implies(hyp, to_z3(am.elem((b, k))) == inp["MN"](fi, r, k)), "P")
                    ctx.oblige(f"post.box-{b}-gets-the-maxima-of-its-own-fab", z3.Implies(hyp, to_z3(ax.elem((b, k))) == inp["MX"](fi, r, k)), "P")


class ChkGeometry(FragmentTask):
    """The statements of CheckpointReader.__init__ that derive the per-level geometry (real code; skeleton: three levels, two
    level-0 boxes with symbolic index ranges, symbolic domain): the grid of level lv has 2**lv times the level-0 extent in every
    direction (one array PER level - a later level does not rewrite an earlier one) and the cell size of level lv is the domain
    length divided by that level's own extent."""
    prop = "C17"
    reach = "S"
    qual = "amr_kitchen.chk2plt.checkpoint_reader.CheckpointReader.__init__"
    first = staticmethod(FragmentTask.assigns("grid_sizes"))
    last = staticmethod(FragmentTask.assigns("dx"))

    def __init__(self):
        self.name = "CheckpointReader.__init__.level-geometry"

    def select(self, fdef):
        """everything between the block that parses the checkpoint Header (the last top-level `with`) and the statement that
        defines the cell sizes - however many temporaries the grid sizes are computed with"""
        body = fdef.body
        withs = [i for i, st in enumerate(body) if isinstance(st, ast.With)]
        ends = [i for i, st in enumerate(body) if self.last(st)]
        if not withs or not ends or ends[-1] <= withs[-1]:
            return None
        return body[withs[-1] + 1:ends[-1] + 1]

    def setup(self, ex):
        ctx = ex.ctx
        HI = z3.Function("BHI", I, I, I)
        LO = z3.Function("BLO", I, I, I)
        ind = NDArray([2, 2, 3], lambda ix: z3.If(to_z3(ix[1]) == 0, LO(to_z3(ix[0]), to_z3(ix[2])), HI(to_z3(ix[0]), to_z3(ix[2]))), "int")
        for b in range(2):
            for d in range(3):
                ctx.assume(z3.And(LO(b, d) >= 0, HI(b, d) >= LO(b, d)))
        glo = [z3.Real(f"glo{d}") for d in range(3)]
        ghi = [z3.Real(f"ghi{d}") for d in range(3)]
        for d in range(3):
            ctx.assume(ghi[d] > glo[d])
        boxes = [{"indices": ind}, {"indices": NDArray([1, 2, 3], lambda ix: z3.IntVal(0), "int")},
                 {"indices": NDArray([1, 2, 3], lambda ix: z3.IntVal(0), "int")}]
        self_ = Record("amr_kitchen.chk2plt.checkpoint_reader.CheckpointReader", boxes=boxes, max_level=2,
                       geo_lo=Vec(list(glo), "array"), geo_hi=Vec(list(ghi), "array"))
        return {"frame": {"self": self_}, "self_": self_, "HI": HI, "glo": glo, "ghi": ghi}

    def post(self, ex, inp, out):
        ctx = ex.ctx
        ctx.oblige("raises-nothing", out.kind == "ret", "P", note=str(out.exc) if out.kind != "ret" else "")
        if out.kind != "ret":
            return
        a = inp["self_"].attrs
        gs, dx = a.get("grid_sizes"), a.get("dx")
        from pyvc.ops import as_ndarray
        ok = isinstance(gs, list) and len(gs) == 3 and dx is not None
        ctx.structure("post.one-grid-size-per-level-and-a-cell-size-table", ok)
        HI = inp["HI"]
        g0 = [z3.If(HI(0, d) >= HI(1, d), HI(0, d), HI(1, d)) + 1 for d in range(3)]
        ctx.ghost["minmax_semantics"] = True
        dxa = as_ndarray(dx)
        for lv in range(3):
            g = as_ndarray(gs[lv])
            for d in range(3):
                ctx.oblige(f"post.grid-of-level-{lv}-is-2^{lv}-times-the-level-0-extent[{d}]", veq(ctx, g.elem((d,)), g0[d] * 2 ** lv), "P")
                ctx.oblige(f"post.cell-size-of-level-{lv}[{d}]",
                           veq(ctx, dxa.elem((lv, d)), (inp["ghi"][d] - inp["glo"][d]) / z3.ToReal(g0[d] * 2 ** lv)), "P")


def parent_tasks(tier):
    return [ConvertTask("state_D_00000"), ConvertTask("state_D_00001"), ConvertScatter(), ConvertLevel(), ChkGeometry(), __import__("props.scatter_u", fromlist=["convert_scatter"]).convert_scatter()]


def parent_canaries():
    f = "amr_kitchen/chk2plt/chk2plt.py"
    return [("convert: gradp offsets taken for the ids before they are sorted by state offset",
             [(f, "                           self.boxes[level]['gradp_offsets'][bids], # offsets in the gradp binary files",
               "                           self.boxes[level]['gradp_offsets'][lv_bids[self.boxes[level]['state_paths'] == state_bin]], # offsets in the gradp binary files")],
             ["convert.task-of-state-file[state_D_00000]"]),
            ("convert: returned offsets stored in task order instead of per box id",
             [(f, "                all_offsets_plt[bid] = offsets", "                all_offsets_plt[bid[::-1]] = offsets")],
             ["convert.results-stored-per-box"])]


def tasks(tier):
    return parent_tasks(tier)


def canaries(tier):
    return parent_canaries()


class ConvertScatter(FragmentTask):
    """The loop of convert() that stores what the workers returned: the t-th offset / minima / maxima of the task of state
    file f go to box ids_f[t] (the ids recorded when the task was built), so the level header lists for every box ITS OWN
    offset and extrema.  Skeleton: 3 boxes, two tasks (2 boxes + 1 box), 2 output fields; ids, offsets, extrema symbolic."""
    prop = "C17"
    reach = "S"
    qual = CK + "chk2plt.convert"
    # the whole `with Pool() as pool:` statement: the pool call that collects the workers' results AND the loop that stores them
    # (the worker is its interface here: task f returns the f-th result; the collection order is the pool's contract)
    first = staticmethod(lambda s: isinstance(s, ast.With) and "write_plt_bin_from_chk" in ast.unparse(s))
    last = first

    def __init__(self):
        self.name = "convert.results-stored-per-box"

    def setup(self, ex):
        ctx = ex.ctx
        a, b = z3.Ints("id_a id_b")
        ctx.assume(z3.Or(z3.And(a == 0, b == 2), z3.And(a == 2, b == 0)))
        offs = [[z3.Int("off_f0_0"), z3.Int("off_f0_1")], [z3.Int("off_f1_0")]]
        R = z3.RealSort()
        mins = [[[z3.Real(f"min_f{f}_{t}_{c}") for c in range(2)] for t in range(n)] for f, n in ((0, 2), (1, 1))]
        maxs = [[[z3.Real(f"max_f{f}_{t}_{c}") for c in range(2)] for t in range(n)] for f, n in ((0, 2), (1, 1))]
        arr2 = lambda rows: NDArray([len(rows), 2], lambda ix, rows=rows: _pick2(rows, ix), "f8")
        out = [(Vec(offs[f], "array"), arr2(mins[f]), arr2(maxs[f])) for f in range(2)]
        P = z3.Function("PRIOR", z3.IntSort(), z3.IntSort(), R)
        from pyvc.task import require_return_arity
        require_return_arity(ex, [CK + "write_plt_bin_from_chk"], 3)
        self.contracts = {CK + "write_plt_bin_from_chk": lambda ex_, args, kw: out[args[0]]}
        frame = {"mp_args": [0, 1], "state_bin_box_ids": [Vec([a, b], "array"), Vec([1], "array")],
                 "all_offsets_plt": Vec([z3.Real("o0"), z3.Real("o1"), z3.Real("o2")], "array"),
                 "all_mins_plt": NDArray([3, 2], lambda ix: P(to_z3(ix[0]), to_z3(ix[1])), "f8"),
                 "all_maxs_plt": NDArray([3, 2], lambda ix: P(to_z3(ix[0]) + 10, to_z3(ix[1])), "f8")}
        return {"frame": frame, "ids": [[a, b], [1]], "offs": offs, "mins": mins, "maxs": maxs}

    def post(self, ex, inp, out):
        ctx = ex.ctx
        ctx.oblige("raises-nothing", out.kind == "ret", "P", note=str(out.exc) if out.kind != "ret" else "")
        if out.kind != "ret":
            return
        v = out.value
        from pyvc.ops import as_ndarray
        ao, am, ax = as_ndarray(v["all_offsets_plt"]), as_ndarray(v["all_mins_plt"]), as_ndarray(v["all_maxs_plt"])
        for f, ids in enumerate(inp["ids"]):
            for t, bid in enumerate(ids):
                for c in range(3):
                    hyp = to_z3(bid) == c if is_z3(bid) else (bid == c)
                    if hyp is False:
                        continue
                    ctx.oblige(f"post.offset-of-task{f}[{t}]-stored-for-its-box", z3.Implies(hyp, to_z3(ao.elem((c,))) == inp["offs"][f][t]), "P")
                    for k in range(2):
                        ctx.oblige(f"post.minima-of-task{f}[{t}]-stored-for-its-box", z3.Implies(hyp, to_z3(am.elem((c, k))) == inp["mins"][f][t][k]), "P")
                        ctx.oblige(f"post.maxima-of-task{f}[{t}]-stored-for-its-box", z3.Implies(hyp, to_z3(ax.elem((c, k))) == inp["maxs"][f][t][k]), "P")


def _pick2(rows, ix):
    r, c = to_z3(ix[0]), to_z3(ix[1])
    e = None
    for i in range(len(rows) - 1, -1, -1):
        for j in range(len(rows[i]) - 1, -1, -1):
            e = rows[i][j] if e is None else z3.If(z3.And(r == i, c == j), rows[i][j], e)
    return e
