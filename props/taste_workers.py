"""Contracts of the two per-file validation workers of taste (shared by C03 completeness, C04 soundness, C20)."""
import z3
from pyvc.vals import *  # noqa
from pyvc.task import Task
from pyvc.vc import veq
from pyvc.loops import LoopSpec, Any
from pyvc.libfile import RFile, Line, f_size, hdrlen, f_linelen
from contracts.common import sym_path, Fab, fab_facts

TA = "amr_kitchen.taste.taste."
I = z3.IntSort()


class WorkerBase(Task):
    reach = "U"

    def common(self, ex, nd):
        ctx = ex.ctx
        ctx.ghost["ndims"] = nd
        # ARBITRARY directories (the soundness tasks): the binary file may or may not be there to be opened; well-formed inputs (the
        # completeness tasks): it exists
        path, F = sym_path(ctx, "F", exists=not getattr(self, "arbitrary_directory", False))
        n, nf = z3.Ints("n nf")
        OFF = z3.Function("OFF", I, I)
        BID = z3.Function("BID", I, I)
        ILO = [z3.Function(f"ILO{d}", I, I) for d in range(nd)]
        IHI = [z3.Function(f"IHI{d}", I, I) for d in range(nd)]
        ctx.assume(z3.And(n >= 1, nf >= 1))
        g = dict(path=path, F=F, n=n, nf=nf, OFF=OFF, BID=BID, ILO=ILO, IHI=IHI, nd=nd)

        def idx(j):
            j = to_z3(j)
            return [Vec([f(j) for f in ILO]), Vec([f(j) for f in IHI])]
        g["idx"] = idx

        def match(pos, j):
            """the line at `pos` parses to box j's index range and nf components"""
            j = to_z3(j)
            ln = Line(F, pos)
            return z3.And(ln.ok(), ln.nc() == nf, *[ln.lo(d) == ILO[d](j) for d in range(nd)],
                          *[ln.hi(d) == IHI[d](j) for d in range(nd)])
        g["match"] = match
        g["args"] = {"bfile": path, "offsets": SymSeq(n, lambda j: OFF(to_z3(j)), "ndarray"),
                     "indices": SymSeq(n, idx, "ndarray"), "box_ids": SymSeq(n, lambda j: BID(to_z3(j)), "ndarray"),
                     "lv": z3.Int("lv"), "nfields": nf}
        return g

    @staticmethod
    def anyr(g):
        def mk(c):
            r = RFile(g["path"], g["F"])
            r.pos = c.fresh("rpos")
            c.add_pc(r.pos >= 0)
            return r
        return Any(mk)


class HeadersSound(WorkerBase):
    """mp_fun_headers on ARBITRARY file content: a None result means that at every recorded offset a line parses to
    that box's index range and the plotfile's field count (in particular: that the file could be opened)."""
    arbitrary_directory = True

    def __init__(self, prop, nd):
        self.prop, self.nd = prop, nd
        self.qual = TA + "mp_fun_headers"
        self.name = f"mp_fun_headers.sound[nd={nd}]"

    def setup(self, ex):
        g = self.common(ex, self.nd)
        j = z3.Int("qj")

        def checked(k):
            return z3.ForAll([j], z3.Implies(z3.And(j >= 0, j < to_z3(k)), g["match"](g["OFF"](j), j)))

        def template(ex_, fr, k, entry):
            return {"bf": self.anyr(g), "__assume__": [checked(k)], "__assert__": [("checked-prefix", checked(k))]}
        self.loopspecs = {(self.qual, 0): LoopSpec(template)}
        g["checked"] = checked
        return {"args": [g["args"]], "g": g}

    def post(self, ex, inp, out):
        g = inp["g"]
        if out.kind == "ret" and out.value is None:
            from pyvc.libfile import f_exists
            ex.ctx.oblige("post.none-implies-the-binary-file-could-be-opened", f_exists(g["F"]), "P")
            ex.ctx.oblige("post.none-implies-every-recorded-header-matches", g["checked"](g["n"]), "P")
        else:
            ex.ctx.oblige("post.other-outcomes-are-error-or-exception",
                          out.kind == "exc" or out.value is not None, "P")


class HeadersComplete(WorkerBase):
    """mp_fun_headers on a well-formed file: returns None and raises nothing."""

    def __init__(self, prop, nd):
        self.prop, self.nd = prop, nd
        self.qual = TA + "mp_fun_headers"
        self.name = f"mp_fun_headers.complete[nd={nd}]"

    def setup(self, ex):
        g = self.common(ex, self.nd)
        ctx = ex.ctx

        def facts(k):
            k = to_z3(k)
            fb = Fab(ctx, g["F"], g["OFF"](k), self.nd, g["nf"])
            return z3.Implies(z3.And(k >= 0, k < g["n"]),
                              z3.And(*[to_z3(f) for f in fab_facts(fb, True)], g["match"](g["OFF"](k), k)))

        def template(ex_, fr, k, entry):
            return {"bf": self.anyr(g), "__assume__": [facts(k)]}
        self.loopspecs = {(self.qual, 0): LoopSpec(template)}
        return {"args": [g["args"]], "g": g}

    def post(self, ex, inp, out):
        ex.ctx.oblige("post.accepts-well-formed-file", out.kind == "ret" and out.value is None, "P",
                      note=str(out.exc or out.value))


class ShapeBase(WorkerBase):
    qual = TA + "mp_fun_shape"

    def scan(self, ex, g):
        """ghost: S(j) = position of the j-th header met when walking the file the way the worker does."""
        ctx = ex.ctx
        S = z3.Function("S", I, I)
        ctx.assume(S(0) == 0)
        g["S"] = S

        def step(j):
            j = to_z3(j)
            ln = Line(g["F"], S(j))
            shape = [simp(ln.hi(d) - ln.lo(d) + 1) for d in range(self.nd)] + [ln.nc()]
            tot = ctx.define(zprod(shape), "prod")
            return S(j + 1) == S(j) + f_linelen(g["F"], S(j)) + tot * 8
        g["step"] = step
        return S


class ShapeSound(ShapeBase):
    arbitrary_directory = True

    """mp_fun_shape on ARBITRARY content: None means the file is exactly hdrline(box j) + payload(j) for the task's
    boxes in order, each header at its recorded offset, the last payload ending at end of file."""

    def __init__(self, prop, nd):
        self.prop, self.nd = prop, nd
        self.name = f"mp_fun_shape.sound[nd={nd}]"

    def setup(self, ex):
        g = self.common(ex, self.nd)
        S = self.scan(ex, g)
        F, n = g["F"], g["n"]
        j = z3.Int("qj")

        def canon_at(jj):
            ln = Line(F, S(jj))
            return z3.And(g["match"](S(jj), jj), ln.canon())

        def inv(k):
            k = to_z3(k)
            return z3.And(z3.ForAll([j], z3.Implies(z3.And(j >= 0, j <= k), canon_at(j))),
                          z3.ForAll([j], z3.Implies(z3.And(j >= 0, j < k), S(j) == g["OFF"](j))))

        def template(ex_, fr, k, entry):
            k3 = to_z3(k)
            bf = RFile(g["path"], F)
            bf.pos = S(k3) + f_linelen(F, S(k3))
            return {"h": Line(F, S(k3), False), "header_pos": S(k3), "bf": bf,
                    "__assume__": [inv(k3), g["step"](k3), k3 <= n - 1],
                    "__assert__": [("scanned-prefix-consistent", inv(k3))]}
        self.loopspecs = {(self.qual, 0): LoopSpec(template)}
        g["canon_at"] = canon_at
        return {"args": [g["args"]], "g": g}

    def post(self, ex, inp, out):
        g = inp["g"]
        S, n = g["S"], g["n"]
        j = z3.Int("qj")
        if out.kind == "ret" and out.value is None:
            cons = z3.And(z3.ForAll([j], z3.Implies(z3.And(j >= 0, j < n),
                                                    z3.And(g["canon_at"](j), S(j) == g["OFF"](j)))),
                          S(n) == f_size(g["F"]))
            ex.ctx.add_pc(g["step"](n - 1))
            from pyvc.libfile import f_exists
            ex.ctx.oblige("post.none-implies-the-binary-file-could-be-opened", f_exists(g["F"]), "P")
            ex.ctx.oblige("post.none-implies-file-is-exactly-the-recorded-fabs", cons, "P")
        else:
            ex.ctx.oblige("post.other-outcomes-are-error-or-exception",
                          out.kind == "exc" or out.value is not None, "P")


class ShapeComplete(ShapeBase):
    """mp_fun_shape on a well-formed file whose boxes are given in offset order: returns None."""

    def __init__(self, prop, nd):
        self.prop, self.nd = prop, nd
        self.name = f"mp_fun_shape.complete[nd={nd}]"

    def setup(self, ex):
        g = self.common(ex, self.nd)
        ctx = ex.ctx
        F, n, OFF = g["F"], g["n"], g["OFF"]
        ctx.assume(OFF(0) == 0)

        def fab(k):
            return Fab(ctx, F, OFF(to_z3(k)), self.nd, g["nf"])

        def facts(k):
            k = to_z3(k)
            fb = fab(k)
            shape = list(fb.shape) + [fb.line.nc()]
            tot = ctx.define(zprod(shape), "prod")
            nxt = z3.If(k + 1 < n, OFF(k + 1), f_size(F))
            return z3.Implies(z3.And(k >= 0, k < n),
                              z3.And(*[to_z3(f) for f in fab_facts(fb, True)], g["match"](OFF(k), k),
                                     nxt == OFF(k) + fb.hl + tot * 8))

        def template(ex_, fr, k, entry):
            k3 = to_z3(k)
            bf = RFile(g["path"], F)
            bf.pos = OFF(k3) + f_linelen(F, OFF(k3))
            return {"h": Line(F, OFF(k3), False), "header_pos": OFF(k3), "bf": bf,
                    "__assume__": [facts(k3), facts(k3 + 1), k3 <= n - 1]}
        self.loopspecs = {(self.qual, 0): LoopSpec(template)}
        ctx.assume(facts(0))
        return {"args": [g["args"]], "g": g}

    def post(self, ex, inp, out):
        ex.ctx.oblige("post.accepts-well-formed-file", out.kind == "ret" and out.value is None, "P",
                      note=str(out.exc or out.value))


def worker_tasks(prop, which):
    out = []
    for nd in (2, 3):
        if "sound" in which:
            out += [HeadersSound(prop, nd), ShapeSound(prop, nd)]
        if "complete" in which:
            out += [HeadersComplete(prop, nd), ShapeComplete(prop, nd)]
    return out
