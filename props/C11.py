"""C11 - chef writes recipe(box) under the right names with true min/max."""
from props.C01 import ASSUMPTIONS as A01, TRUSTED as T01
from props.chef_kernels import chef_tasks, chef_canaries

ASSUMPTIONS = A01 + ["Cantera and user recipes are opaque deterministic functions; new fields of thermochemical recipes are compared "
                     "with an independent Cantera evaluation to 1e-11 relative, kept fields bit for bit",
                     "Cantera SolutionArray contract (assumed): after `s.TPY = T, P, Y` an attribute of s is a deterministic array of "
                     "the box (uninterpreted THERMO(box, i, j, k, column)); the five workers are proved to hand it the box's own "
                     "temperature / mass fractions (cleaned copies: |T|<=1e-8 -> 1, sum(Y)~0 -> Y(O2)=1, the double nearest 1e-8 as "
                     "numpy.isclose compares), the table entries of the box's own shape, and to write [kept, selected columns]",
                     "worker arguments as Chef.__init__ builds them: 0 <= sp_start < sp_end <= ncomp, 0 <= id_temp < ncomp, "
                     "0 <= idx_O2 < sp_end - sp_start, selected species / reaction columns inside the attribute: established on "
                     "bounded skeletons by the real sarray_input, the closing block and the recipe dispatch of Chef.__init__ and "
                     "set_global_sarrays / unique_box_shapes (Cantera's Solution / SolutionArray are stubs holding names and shapes); "
                     "that a requested reaction index exists in the mechanism is Cantera's own check"]
TRUSTED = T01 + ["Cantera SolutionArray; pathos pool contract (replaced by the controllable pool in the harness)"]


def _tasks0(tier):
    return chef_tasks("C11")


def canaries(tier):
    return chef_canaries()


SCENARIO_TIMEOUT = 600


def scenarios(tier, seed):
    out = [{"kind": "chef", "seed": seed * 1000 + 1600 + i, "nf": 3 + i % 2, "nlevels": 1 + i % 2, "nfiles": 2 + i % 2,
            "layout": "shuffled", "n0": [16, 16, 8], "ncombos": 5 if tier == "quick" else 12} for i in range(2 if tier == "quick" else 5)]
    # 24 fields and a box starting at index 24: the field count also occurs inside the box indices of a FAB header
    out.append({"kind": "chef", "seed": seed * 1000 + 1650, "thermo": True, "nlevels": 2, "nfiles": 2, "layout": "shuffled",
                "n0": [32, 8, 8], "box": 8, "ncombos": 8 if tier == "quick" else 20})
    return out


def run_scenario(p, wd):
    from harness.rt_chef import run_chef_scenario
    return run_chef_scenario(p, wd)



def tasks(tier):
    # the FAB header parsers / formatter (real bodies on canonical header text): the obligations behind the header contracts
    from props.parsers import parser_tasks
    return _tasks0(tier) + parser_tasks("C11", nds=(2, 3))
