def chk_tasks(prop):
    return []
def chk_canaries():
    return []
