"""chk2plt worker under contract (C17): ghost stripping, flooring, subset concatenation, min/max."""
import z3
from pyvc.vals import *  # noqa
from pyvc.task import Task
from pyvc.vc import veq
from pyvc.loops import LoopSpec
from pyvc.libfile import RFile, WFile, hdrlen, f_exists, f_size
from pyvc.libnp import reduce_const
from contracts.common import sym_path, Fab, fab_facts, size_of
from contracts.ondisk import DiskFile

CK = "amr_kitchen.chk2plt.chk2plt."
I = z3.IntSort()


class ChkWorker(Task):
    """write_plt_bin_from_chk: for every FAB of the state file (disk order) the plotfile binary receives
    hdrline(box range, ncomp_out) + F-order bytes of [interior state (ghosts stripped per axis; species divided by their sum
    when flooring) ++ gradp FAB of the SAME box ++ I_R FAB of the same box]; returned offsets/mins/maxs describe exactly what
    is written."""
    prop = "C17"
    reach = "U"
    qual = CK + "write_plt_bin_from_chk"

    def __init__(self, gradp, reac, floor):
        self.gradp, self.reac, self.floor = gradp, reac, floor
        self.name = f"write_plt_bin_from_chk[gradp={gradp},reactions={reac},flooring={floor}]"

    def setup(self, ex):
        ctx = ex.ctx
        ctx.ghost["ndims"] = 3
        st = DiskFile(ctx, "Fs", 3, canonical=False)
        ns = st.nc
        ctx.assume(ns >= 8)
        pw, Fw = sym_path(ctx, "Fw", exists=False)
        ctx.assume(Fw != st.F)
        G = [z3.Int(f"G{d}") for d in range(3)]
        BLO = [z3.Function(f"BLO{d}", I, I) for d in range(3)]
        BHI = [z3.Function(f"BHI{d}", I, I) for d in range(3)]
        FG, OG, FI, OI = (z3.Function(n, I, I) for n in ("FILE_gradp", "OFF_gradp", "FILE_IR", "OFF_IR"))
        ncg, nci = z3.Ints("nc_gradp nc_IR")
        ctx.assume(z3.And(ncg >= 1, nci >= 1, *[g >= 1 for g in G]))
        OUT = z3.Function("OUTPOS", I, I)
        ctx.assume(OUT(0) == 0)
        nout = ns + (ncg if self.gradp else 0) + (nci if self.reac else 0)

        def bshape(j):
            j = to_z3(j)
            return [simp(BHI[d](j) - BLO[d](j) + 1) for d in range(3)]

        def sub(j, FF, OO, nc):
            j = to_z3(j)
            return Fab(ctx, FF(j), OO(j), 3, nc)

        def facts(j):
            j = to_z3(j)
            fb = st.fab(j)
            fs = [st.facts(j)]
            inner = [z3.And(*[fb.lo[d] == BLO[d](j) - G[d] for d in range(3)], *[fb.hi[d] == BHI[d](j) + G[d] for d in range(3)],
                            *[BHI[d](j) >= BLO[d](j) for d in range(3)])]
            for on, FF, OO, nc in ((self.gradp, FG, OG, ncg), (self.reac, FI, OI, nci)):
                if on:
                    sb = sub(j, FF, OO, nc)
                    inner += [to_z3(f) for f in fab_facts(sb, False)]
                    inner += [sb.lo[d] == BLO[d](j) for d in range(3)] + [sb.hi[d] == BHI[d](j) for d in range(3)]
                    inner += [f_exists(FF(j)), FF(j) != Fw, f_size(FF(j)) >= 0]
            inner.append(OUT(j + 1) == OUT(j) + hdrlen([f(j) for f in BLO], [f(j) for f in BHI], nout)
                         + 8 * size_of(ctx, bshape(j) + [nout]))
            fs.append(z3.Implies(z3.And(j >= 0, j < st.m), z3.And(*inner)))
            return z3.And(*fs)

        def data(j):
            fb = st.fab(j)
            bs_ = bshape(j)
            sg = sub(j, FG, OG, ncg) if self.gradp else None
            si = sub(j, FI, OI, nci) if self.reac else None

            def state(ix, c):
                return fb.value(tuple(to_z3(ix[d]) + G[d] for d in range(3)), c)

            def el(ix):
                c = to_z3(ix[-1])
                cell = tuple(ix[:3])
                v = state(cell, c)
                if self.floor:
                    tot = reduce_const(ex, "sum", [ns - 7], lambda r: state(cell, 4 + to_z3(r[0])))
                    v = zite(z3.And(c >= 4, c < ns - 3), to_real(v) / tot, v)
                off = ns
                if sg is not None:
                    v = zite(c < off, v, sg.value(cell, c - off))
                    off = off + ncg
                if si is not None:
                    v = zite(c < off, v, si.value(cell, c - off))
                return v
            return NDArray(bs_ + [nout], el)

        def rec(j):
            j = to_z3(j)
            return [("hdr", (tuple(f(j) for f in BLO), tuple(f(j) for f in BHI), nout), None), ("ser", data(j), "F")]

        def red(kind):
            def row(j):
                dj = data(j)
                cache = {}

                def el(ix):
                    key = str(ix[0])
                    if key not in cache:
                        cache[key] = reduce_const(ex, kind, bshape(j), lambda r, c=ix[0]: dj.elem(tuple(r) + (c,)))
                    return cache[key]
                return NDArray([nout], el)
            return row

        def wtemplate(k):
            wf = WFile(pw, Fw)
            wf.nrec, wf.rec, wf.recstart, wf.rec_size = k, rec, (lambda j: OUT(to_z3(j))), 2
            wf.pos = OUT(to_z3(k))
            return wf

        def template(ex_, fr, k, entry):
            k3 = to_z3(k)
            ex_.ctx.register_canon(*G, *bshape(k3), ns, ns - 7)
            bs = RFile(st.path, st.F)
            bs.pos = st.P(k3)
            return {"offsets_plt": SymSeq(k, lambda j: OUT(to_z3(j))), "mins_plt": SymSeq(k, red("min")),
                    "maxs_plt": SymSeq(k, red("max")), "bs": bs, "bp": wtemplate(k), "bid": k,
                    "__assume__": [z3.And(k3 >= 0, k3 <= st.m), facts(k3)], "__assert__": [("in-range", k3 <= st.m)]}
        self.loopspecs = {(self.qual, 0): LoopSpec(template)}

        def pathseq(FF, nm):
            def get(j):
                o = Opaque(nm, "path")
                o.sym = FF(to_z3(j))
                return o
            return SymSeq(st.m, get, "list")
        args = (st.path, pathseq(FG, "gradp_file"), pathseq(FI, "IR_file"),
                SymSeq(st.m, lambda j: [Vec([f(to_z3(j)) for f in BLO]), Vec([f(to_z3(j)) for f in BHI])], "ndarray"),
                SymSeq(st.m, lambda j: OG(to_z3(j)), "ndarray"), SymSeq(st.m, lambda j: OI(to_z3(j)), "ndarray"), pw,
                {"x_velocity": 0, "y_velocity": 1, "z_velocity": 2, "density": 3, "Y_start": 4, "Y_end": -3, "rhoh": -3,
                 "temp": -2, "RhoRT": -1}, self.gradp, self.reac, self.floor)
        return {"args": [args], "m": st.m, "OUT": OUT, "wtemplate": wtemplate, "Fw": Fw, "red": red}

    def post(self, ex, inp, out):
        ctx = ex.ctx
        ctx.oblige("raises-nothing", out.kind == "ret", "P", note=str(out.exc) if out.kind != "ret" else "")
        if out.kind != "ret":
            return
        m, OUT = inp["m"], inp["OUT"]
        v = out.value
        ok = isinstance(v, tuple) and len(v) == 3
        ctx.structure("post.returns-triple", ok)
        if not ok:
            return
        ctx.oblige("post.offsets", veq(ctx, v[0], SymSeq(m, lambda j: OUT(to_z3(j)))), "P")
        ctx.oblige("post.mins-are-extrema-of-the-written-array", veq(ctx, v[1], SymSeq(m, inp["red"]("min"))), "P")
        ctx.oblige("post.maxs-are-extrema-of-the-written-array", veq(ctx, v[2], SymSeq(m, inp["red"]("max"))), "P")
        wfs = ctx.ghost.get("wfiles", [])
        ctx.oblige("frame.writes-only-the-plotfile-binary", len(wfs) == 1 and wfs[0].F is inp["Fw"], "P")
        if len(wfs) == 1:
            exp = inp["wtemplate"](m)
            exp.closed = True
            ctx.oblige("post.output-file-content", veq(ctx, wfs[0], exp), "P")


def chk_tasks(prop, tier="quick"):
    out = [ChkWorker(False, False, False), ChkWorker(True, True, False), ChkWorker(True, False, False)]
    if tier == "thorough":
        # flooring adds a division by an uninterpreted SUM inside MIN/MAX congruences: seconds per query, kept out of
        # the every-change tier so that verdicts cannot flip under load (the bounded layer covers flooring there)
        out += [ChkWorker(True, False, True), ChkWorker(False, True, True)]
    return out


def chk_canaries():
    f = "amr_kitchen/chk2plt/chk2plt.py"
    return [("ghost width of the first axis used for the second",
             [(f, "                            n_ghosts[1]:-n_ghosts[1],", "                            n_ghosts[0]:-n_ghosts[0],")],
             ["write_plt_bin_from_chk[gradp=False,reactions=False,flooring=False]"]),
            ("gradp read at the offset of the reaction rates", [(f, "                        bg.seek(offsets_gradp[bid])", "                        bg.seek(offsets_I_R[bid])")],
             ["write_plt_bin_from_chk[gradp=True,reactions=True,flooring=False]"])]
