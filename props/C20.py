"""C20 - whatever taste accepts, the reader can read completely and consistently."""
import z3
from pyvc.vals import *  # noqa
from pyvc.task import Task
from pyvc.libfile import Line, f_size, f_linelen, hdrlen
from contracts.common import Fab, fab_facts
from props.taste_workers import worker_tasks, WorkerBase
from props.C01 import Reader, ASSUMPTIONS as A01, TRUSTED as T01

ASSUMPTIONS = A01 + ["file contents are ARBITRARY; 'Consistent' is the conjunction of the two validation workers' proved "
                     "postconditions; the lemma below connects it to the proved preconditions of the box readers (C01)"]
TRUSTED = T01


class ConsistentImpliesReadable(WorkerBase):
    """Lemma over two contracts: post(mp_fun_headers)=None and post(mp_fun_shape)=None for a file  ==>  for every
    box j of that file the reader precondition of C01 holds at the RECORDED offset (header parses to the box's index
    range with nf components, payload inside the file) and the FAB found there is the one whose header names that
    index range."""
    reach = "U"
    qual = None

    def __init__(self, nd):
        self.prop, self.nd = "C20", nd
        self.name = f"lemma.consistent-implies-reader-precondition[nd={nd}]"

    def functions(self):
        return []

    def setup(self, ex):
        g = self.common(ex, self.nd)
        ctx = ex.ctx
        F, n, OFF = g["F"], g["n"], g["OFF"]
        S = z3.Function("S", z3.IntSort(), z3.IntSort())
        j = z3.Int("qj")
        ctx.assume(S(0) == 0)

        def end(jj):
            ln = Line(F, S(jj))
            shape = [simp(ln.hi(d) - ln.lo(d) + 1) for d in range(self.nd)] + [ln.nc()]
            return S(jj) + f_linelen(F, S(jj)) + ctx.define(zprod(shape), "prod") * 8
        # postcondition of mp_fun_shape (proved in mp_fun_shape.sound): walking positions S
        ctx.assume(z3.ForAll([j], z3.Implies(z3.And(j >= 0, j < n),
                                             z3.And(g["match"](S(j), j), Line(F, S(j)).canon(), S(j) == OFF(j)))))
        ctx.assume(S(n) == f_size(F))
        # postcondition of mp_fun_headers (proved in mp_fun_headers.sound)
        ctx.assume(z3.ForAll([j], z3.Implies(z3.And(j >= 0, j < n), g["match"](OFF(j), j))))
        # definition of the walk and file-model facts, instantiated at the box under consideration
        b = z3.Int("b")
        ctx.assume(z3.And(b >= 0, b < n))
        ctx.assume(S(b + 1) == end(b))
        ctx.assume(z3.Implies(b + 1 < n, S(b + 1) >= 0))
        ctx.assume(f_linelen(F, S(b)) > 0)
        # level-header index ranges are not inverted (documented restriction of the class of directories)
        for d in range(self.nd):
            ctx.assume(z3.ForAll([j], z3.Implies(z3.And(j >= 0, j < n), g["ILO"][d](j) <= g["IHI"][d](j))))
        # the walk is monotone: induction on the box ordinal; the STEP is obligation 'walk-monotone.step' below
        # (arbitrary k, S(k+1) defined by the worker's arithmetic), the induction principle itself is meta-level
        k = z3.Int("k_ind")
        ctx.assume(z3.And(k >= 0, k < n))
        ctx.assume(S(k + 1) == end(k))
        ctx.assume(f_linelen(F, S(k)) >= 0)
        return {"g": g, "b": b, "S": S, "k": k}

    def call(self, ex, inp):
        return None

    def post(self, ex, inp, out):
        ctx = ex.ctx
        g, b, S = inp["g"], inp["b"], inp["S"]
        F, OFF, n = g["F"], g["OFF"], g["n"]
        fab = Fab(ctx, F, OFF(b), self.nd, g["nf"])
        pre = [f for f in fab_facts(fab, canonical=False)]
        # S(b+1) <= size needs monotonicity chained to n: prove for the last box exactly, others via S(b+1) <= S(n)
        k = inp["k"]
        ctx.oblige("walk-monotone.step", S(k) <= S(k + 1), "P")
        m = z3.Int("qm")
        ctx.add_pc(z3.ForAll([m], z3.Implies(z3.And(m >= 0, m < n), S(m) <= S(m + 1))))      # by the step + induction
        ctx.add_pc(z3.ForAll([m], z3.Implies(z3.And(m >= b + 1, m <= n), S(b + 1) <= S(m))))  # transitivity, idem
        ctx.add_pc(z3.ForAll([m], z3.Implies(z3.And(m >= 0, m <= n), S(m) >= 0)))             # from S(0)=0, idem
        ln = Line(F, OFF(b))
        shape4 = [simp(ln.hi(d) - ln.lo(d) + 1) for d in range(self.nd)] + [ln.nc()]
        prod4 = ctx.define(zprod(shape4), "prod")
        link = prod4 == to_z3(fab.N) * ln.nc()
        ctx.oblige("product-regrouping", link, "X")
        ctx.add_pc(link)
        ctx.add_pc(S(b) == OFF(b))            # instance of the worker postcondition at b (helps the matcher)
        for i_, f_ in enumerate(pre):
            ctx.oblige(f"reader-precondition-at-recorded-offset.{i_}", f_, "P")
        ctx.oblige("recorded-fab-names-the-box-range", g["match"](OFF(b), b), "P")


def _tasks0(tier):
    out = [ConsistentImpliesReadable(2), ConsistentImpliesReadable(3)]
    out += worker_tasks("C20", ["sound"])
    from props.taste_parents import parent_tasks
    out += parent_tasks("C20")
    from props.header_tasks import _ht
    out += _ht("C20", tier)
    for nd in (2, 3):
        r = Reader("mp_read_box_slice_field", nd, "slice:::")
        r.prop = "C20"
        out.append(r)
    return out


def canaries(tier):
    f = "amr_kitchen/taste/taste.py"
    return [("shape worker no longer ties recorded offsets to walked positions",
             [(f, "            if header_pos != args['offsets'][i]:", "            if False:")], ["mp_fun_shape.sound[nd=3]"])]


SCENARIO_TIMEOUT = 600
SCENARIO_WORKERS = 3


def scenarios(tier, seed):
    n = 2 if tier == "quick" else 8
    return [{"kind": "agree", "seed": seed * 1000 + 500 + i, "ndims": 3 if i % 2 == 0 else 2, "nf": 2 + i % 3, "nlevels": 1 + i % 2,
             "nfiles": [1, 2, 3][i % 3], "layout": ["shuffled", "roundrobin"][i % 2], "max_sites": 22 if tier == "quick" else 80,
             "pairs": 3 if tier == "quick" else 25, "n0": [16, 16, 8] if i % 2 == 0 else [32, 16]} for i in range(n)]


def run_scenario(p, wd):
    from harness.rt_taste import run_agree_scenario
    return run_agree_scenario(p, wd)



def tasks(tier):
    # the FAB header parsers / formatter (real bodies on canonical header text): the obligations behind the header contracts
    from props.parsers import parser_tasks
    return _tasks0(tier) + parser_tasks("C20", nds=(2, 3))
