"""Ghost enumeration of a filtered list.

A python list built by `for i, x in enumerate(seq): if sel(i): out.append(g(i))` is, after k iterations,
[g(i) for i in range(k) if sel(i)].  It is represented as SymSeq(CNT(k), p -> g(IDX(p))) with two ghost functions
  CNT(k) = number of selected indices below k,      IDX(p) = the p-th selected index,
which exist for every predicate sel.  The facts below are theorems about (CNT, IDX) for any sel (finite sequences;
definitional, a conservative extension); they are instantiated by hand at the terms a proof needs, never quantified."""
import z3
from pyvc.vals import to_z3

I = z3.IntSort()


class Filt:
    def __init__(self, ctx, name, n, sel):
        self.ctx, self.n, self.sel = ctx, to_z3(n), sel
        self.CNT = z3.Function(f"CNT_{name}", I, I)
        self.IDX = z3.Function(f"IDX_{name}", I, I)
        ctx.assume(self.CNT(0) == 0)

    def cnt(self, k):
        return self.CNT(to_z3(k))

    def idx(self, p):
        return self.IDX(to_z3(p))

    def step(self, k):
        """facts about iteration k: CNT(k+1) = CNT(k) + [sel(k)], CNT(k) >= 0, and k is the CNT(k)-th selected index"""
        k = to_z3(k)
        s = self.sel(k)
        return z3.And(self.CNT(k) >= 0, self.CNT(k) <= k,
                      z3.Implies(z3.And(k >= 0, k < self.n),
                                 z3.And(self.CNT(k + 1) == self.CNT(k) + z3.If(s, 1, 0),
                                        z3.Implies(s, self.IDX(self.CNT(k)) == k))))

    def at_rank(self, p, k):
        """facts about the p-th element of the list after k iterations (0 <= p < CNT(k))"""
        p, k = to_z3(p), to_z3(k)
        i = self.IDX(p)
        return z3.Implies(z3.And(p >= 0, p < self.CNT(k)),
                          z3.And(i >= 0, i < k, self.sel(i), self.CNT(i) == p, self.CNT(i + 1) == p + 1))

    def at_index(self, i, k):
        """facts about a selected index i < k: it has rank CNT(i) < CNT(k) in the list after k iterations"""
        i, k = to_z3(i), to_z3(k)
        return z3.Implies(z3.And(i >= 0, i < k, self.sel(i)),
                          z3.And(self.CNT(i) >= 0, self.CNT(i) < self.CNT(k), self.IDX(self.CNT(i)) == i))

    def mono(self, p, q):
        """the enumeration is increasing"""
        p, q = to_z3(p), to_z3(q)
        return z3.Implies(z3.And(0 <= p, p < q, q < self.CNT(self.n)), self.IDX(p) < self.IDX(q))
