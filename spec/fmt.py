"""Text of the plotfile headers (fmtH / fmtC of DESIGN 2.4) for a SKELETON: the structure (dimensionality, number of
fields, levels, boxes per level, files) is concrete, every number and name is a symbolic atom."""
import z3
from pyvc.vals import *  # noqa
from pyvc.strings import SStr, IntAtom, FloatAtom, NameAtom


def S(*segs):
    return SStr(list(segs))


class SkelPF:
    def __init__(self, nd, nf, nboxes, tag="", repeated=None, ref_extra=0, files_per_level=1, derived=None):
        """nboxes: list per level; repeated: tuple (i, j) of field positions sharing one name (j > i); derived: {j: (i, suffix)} -
        the name at position j is the name at position i followed by the literal suffix (a header whose own names look like
        the reader's renaming of repetitions: a, a_2, a)"""
        self.derived = dict(derived or {})
        self.nd, self.nf, self.nboxes, self.tag = nd, nf, list(nboxes), tag
        self.L = len(nboxes) - 1
        self.ref_extra = ref_extra
        t = tag
        self.names = [Opaque(f"field{i}{t}", "name", distinct_from_literals=True) for i in range(nf)]
        for o in self.names:
            o.sym = z3.Int(o.name)
        if repeated:
            # (i, j): positions i and j carry one name; (i, j, k, ...): all of them do
            for j in repeated[1:]:
                self.names[j] = self.names[repeated[0]]
        self.version = Opaque(f"version_text{t}", "name")
        self.version.sym = z3.Int(self.version.name)
        self.time = z3.Real(f"time{t}")
        self.geo_lo = [z3.Real(f"glo{d}{t}") for d in range(nd)]
        self.geo_hi = [z3.Real(f"ghi{d}{t}") for d in range(nd)]
        self.dx = [[z3.Real(f"dx{lv}_{d}{t}") for d in range(nd)] for lv in range(self.L + 1)]
        self.n = [[z3.Int(f"n{lv}_{d}{t}") for d in range(nd)] for lv in range(self.L + 1)]
        self.steps = [z3.Int(f"step{lv}{t}") for lv in range(self.L + 1)]
        self.blo = [[[z3.Real(f"blo{lv}_{b}_{d}{t}") for d in range(nd)] for b in range(nb)] for lv, nb in enumerate(nboxes)]
        self.bhi = [[[z3.Real(f"bhi{lv}_{b}_{d}{t}") for d in range(nd)] for b in range(nb)] for lv, nb in enumerate(nboxes)]
        self.ilo = [[[z3.Int(f"ilo{lv}_{b}_{d}{t}") for d in range(nd)] for b in range(nb)] for lv, nb in enumerate(nboxes)]
        self.ihi = [[[z3.Int(f"ihi{lv}_{b}_{d}{t}") for d in range(nd)] for b in range(nb)] for lv, nb in enumerate(nboxes)]
        self.off = [[z3.Int(f"off{lv}_{b}{t}") for b in range(nb)] for lv, nb in enumerate(nboxes)]
        self.fileatoms = [[Opaque(f"Cell_D_{lv}_{k}{t}", "name") for k in range(files_per_level)] for lv in range(self.L + 1)]
        for lvf in self.fileatoms:
            for o in lvf:
                o.sym = z3.Int(o.name)
        self.file_of = [[b % files_per_level for b in range(nb)] for nb in nboxes]
        self.mins = [[[z3.Real(f"min{lv}_{b}_{c}{t}") for c in range(nf)] for b in range(nb)] for lv, nb in enumerate(nboxes)]
        self.maxs = [[[z3.Real(f"max{lv}_{b}_{c}{t}") for c in range(nf)] for b in range(nb)] for lv, nb in enumerate(nboxes)]

    # -- expected reader view -------------------------------------------------------------------------------------
    def field_keys(self):
        """keys of PlotfileCooker.fields in order (repeated names renamed name_2, name_3, ...)"""
        keys = []
        for i, nm in enumerate(self.names):
            k = S(*self.name_segs(i))
            if k not in keys:
                keys.append(k)
            else:
                r = 2
                while S(*self.name_segs(i), f"_{r}") in keys:
                    r += 1
                keys.append(S(*self.name_segs(i), f"_{r}"))
        return keys

    def name_segs(self, i):
        if i in self.derived:
            j, suffix = self.derived[i]
            return [NameAtom(self.names[j]), suffix]
        return [NameAtom(self.names[i])]

    # -- text ---------------------------------------------------------------------------------------------------------
    def floats_line(self, vals):
        segs = []
        for v in vals:
            segs += [FloatAtom(v, "repr"), " "]
        return S(*segs, "\n")

    def header_lines(self, trailing_blanks=True):
        nd = self.nd
        # the version line is free text of the writing code (HyperCLaw-V1.1, NavierStokes-V1.1, ...): a symbolic name that may
        # contain blanks; the reader has no business interpreting it
        out = [S(NameAtom(self.version, nows=False), "\n"), f"{self.nf}\n"]
        out += [S(*self.name_segs(i), "\n") for i in range(len(self.names))]
        out += [f"{nd}\n", S(FloatAtom(self.time, "repr"), "\n"), f"{self.L}\n"]
        out += [self.floats_line(self.geo_lo), self.floats_line(self.geo_hi)]
        nref = self.L + self.ref_extra
        out.append(" ".join(["2"] * nref) + (" " if nref and trailing_blanks else "") + "\n")
        zeros = ",".join(["0"] * nd)
        segs = []
        for lv in range(self.L + 1):
            segs += [f"(({zeros}) ("]
            for d in range(nd):
                segs += [IntAtom(self.n[lv][d] - 1), "," if d < nd - 1 else ""]
            segs += [f") ({zeros})) "]
        out.append(S(*segs, "\n"))
        segs = []
        for lv in range(self.L + 1):
            segs += [IntAtom(self.steps[lv]), " "]
        out.append(S(*segs, "\n"))
        for lv in range(self.L + 1):
            out.append(self.floats_line(self.dx[lv]))
        out += ["0\n", "0\n"]
        for lv in range(self.L + 1):
            out.append(S(f"{lv} {self.nboxes[lv]} ", FloatAtom(self.time, "repr"), "\n"))
            out.append(S(IntAtom(self.steps[lv]), "\n"))
            for b in range(self.nboxes[lv]):
                for d in range(nd):
                    out.append(S(FloatAtom(self.blo[lv][b][d], "repr"), " ", FloatAtom(self.bhi[lv][b][d], "repr"), "\n"))
            out.append(f"Level_{lv}/Cell\n")
        return out

    def cellh_lines(self, lv):
        nd, nb, nf = self.nd, self.nboxes[lv], self.nf
        zeros = ",".join(["0"] * nd)
        out = ["1\n", "1\n", f"{getattr(self, 'cellh_nf', None) or nf}\n", "0\n", f"({nb} 0\n"]
        for b in range(nb):
            segs = ["(("]
            for d in range(nd):
                segs += [IntAtom(self.ilo[lv][b][d]), "," if d < nd - 1 else ""]
            segs += [") ("]
            for d in range(nd):
                segs += [IntAtom(self.ihi[lv][b][d]), "," if d < nd - 1 else ""]
            segs += [f") ({zeros}))\n"]
            out.append(S(*segs))
        out += [")\n", f"{nb}\n"]
        for b in range(nb):
            out.append(S("FabOnDisk: ", NameAtom(self.fileatoms[lv][self.file_of[lv][b]], plain=True), " ", IntAtom(self.off[lv][b]), "\n"))
        for tab in (self.mins, self.maxs):
            out += ["\n", f"{nb},{nf}\n"]
            for b in range(nb):
                segs = []
                for c in range(nf):
                    segs += [FloatAtom(tab[lv][b][c], ".16e"), ","]
                out.append(S(*segs, "\n"))
        out.append("\n")
        return out


    def wf_assumptions(self):
        """well-formedness used by the grids: n >= 1, dx > 0, geo_hi = geo_lo + n dx"""
        out = []
        for lv in range(self.L + 1):
            for d in range(self.nd):
                out.append(z3.And(self.n[lv][d] >= 1, self.dx[lv][d] > 0,
                                  self.geo_hi[d] == self.geo_lo[d] + to_real(self.n[lv][d]) * self.dx[lv][d]))
        return out
