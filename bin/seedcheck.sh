#!/bin/bash
# seedcheck.sh [Cxx ...] [--tier quick|thorough]
# For every kept seeded change /verif/seeded/<id>/patch.diff (or only the ids given): copy /repo's working tree to a scratch
# directory outside /repo and /verif, apply the change there, run the registered check of that property against the copy
# (VERIF_REPO / VERIF_OUT: neither /repo nor the committed evidence is touched), record whether the change is detected and by
# which layer in seeded/<id>/detected.json, remove the scratch copy.  Exit 0 iff every seed is detected (exit 1 of its check
# with a VIOLATION line) -- this is the machinery's own regression test, not a registered property check.
HERE="$(cd "$(dirname "$0")/.." && pwd)"; cd "$HERE"
tier=quick; ids=()
while [ $# -gt 0 ]; do case "$1" in --tier) tier=$2; shift 2;; *) ids+=("$1"); shift;; esac; done
[ ${#ids[@]} -eq 0 ] && ids=($(ls seeded | sort))
bin/setup.sh >/dev/null 2>&1
miss=0
for id in "${ids[@]}"; do
  d="$HERE/seeded/$id"; prop=$(echo "$id" | cut -c1-3)
  [ -f "$d/patch.diff" ] || { echo "$id: no patch"; miss=1; continue; }
  sc=$(mktemp -d /var/tmp/seedcheck.XXXXXX)
  mkdir -p "$sc/repo" "$sc/out"
  (cd /repo && tar --exclude=.git --exclude=test/plt_tmp -cf - .) | (cd "$sc/repo" && tar xf -)
  if ! (cd "$sc/repo" && git init -q . 2>/dev/null; git apply "$d/patch.diff"); then echo "$id: PATCH DOES NOT APPLY"; miss=1; rm -rf "$sc"; continue; fi
  t0=$(date +%s)
  VERIF_REPO="$sc/repo" VERIF_OUT="$sc/out" bin/vcheck "$prop" --tier "$tier" > "$sc/log" 2>/dev/null; rc=$?
  t1=$(date +%s)
  "$HERE/.venv/bin/python" - "$id" "$prop" "$tier" "$rc" "$sc" "$d" $((t1-t0)) <<'PY'
import json, sys, os, re
id_, prop, tier, rc, sc, d, secs = sys.argv[1:]
log = open(os.path.join(sc, "log")).read()
vio = [l for l in log.splitlines() if l.startswith("VIOLATION")]
ev = {}
try: ev = json.load(open(os.path.join(sc, "out", "evidence", prop + ".json")))
except Exception: pass
failed = [l.strip() for l in log.splitlines() if re.match(r"\s*(FAILED-OBLIGATION|REFUTED|RT-FAIL)", l)]
layers = set()
for v in vio:
    m = re.search(r"replay=\S*/([^/\s]+)", v)
    if m: layers.add("run-time" if m.group(1).startswith("runtime-") else "proof")
out = {"seed": id_, "property": prop, "tier": tier, "exit": int(rc), "seconds": int(secs), "detected": int(rc) == 1 and bool(vio),
       "layers": sorted(layers), "violations": [v.replace(sc + "/out", "<out>")[:300] for v in vio][:12]}
json.dump(out, open(os.path.join(d, f"detected_{tier}.json"), "w"), indent=1)
print(f"{id_}: exit={rc} detected={out['detected']} layers={','.join(sorted(layers)) or '-'} violations={len(vio)} {secs}s")
PY
  [ "$rc" = 1 ] && grep -q "^VIOLATION" "$sc/log" || miss=1
  rm -rf "$sc"
done
exit $miss
