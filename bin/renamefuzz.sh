#!/bin/bash
# renamefuzz.sh [seed] [locals per function]
# False-alarm regression of the proof layer: for every function under contract, rename one local variable at a time (AST
# rewrite applied in memory to the source the engine reads; behaviour-preserving by construction) and run the task: no renaming
# may produce a refuted obligation or a checker error - undecided ("the loop contract describes a local ... this function does
# not have") is the expected answer where the contract names the local.  Exit 0 = no alarm.
# FUZZ_MODE=ifswap: every `if c: A else: B` rewritten as `if not (c): B else: A`;  FUZZ_MODE=uncomp: every
# `x = [e for t in it if c]` rewritten as `x = []` + an append loop (fresh loop variable names).
HERE="$(cd "$(dirname "$0")/.." && pwd)"; cd "$HERE"
bin/setup.sh >/dev/null 2>&1
export PYTHONPATH="$HERE:$PYTHONPATH" PYTHONDONTWRITEBYTECODE=1 PYTHONHASHSEED=0
exec "$HERE/.venv/bin/python" -m selftest.renamefuzz "${1:-0}" "${2:-3}"
