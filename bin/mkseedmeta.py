#!/usr/bin/env python3
"""Write seeded/<id>/meta.json (which property the change breaks, what it needs in order to manifest, what was run to
confirm it, which layer of the machinery reports it) from the author's description (meta_author.json), the confirmation
record written when the change was taken (confirmed.txt) and the last seedcheck record (detected_<tier>.json)."""
import json, os, sys, glob
here = os.path.join(os.path.dirname(os.path.abspath(__file__)), "..", "seeded")
for d in sorted(glob.glob(os.path.join(here, "*"))):
    if not os.path.isfile(os.path.join(d, "patch.diff")): continue
    sid = os.path.basename(d)
    a = {}
    try: a = json.load(open(os.path.join(d, "meta_author.json")))
    except Exception: pass
    conf = ""
    try: conf = open(os.path.join(d, "confirmed.txt")).read().strip()
    except Exception: pass
    needs = a.get("needs") or a.get("manifests_when") or a.get("needs_to_manifest") or a.get("trigger") or ""
    det = {}
    for tier in ("quick", "thorough"):
        p = os.path.join(d, f"detected_{tier}.json")
        if os.path.exists(p):
            r = json.load(open(p)); det[tier] = {"detected": r["detected"], "layers": r["layers"], "seconds": r["seconds"]}
    demo = [f for f in sorted(os.listdir(d)) if f.startswith("demo")]
    meta = {
        "seed": sid,
        "property": a.get("property", sid[:3]),
        "breaks": a.get("summary") or a.get("change") or a.get("description") or "",
        "needs_to_manifest": needs,
        "why_tests_miss": a.get("why_tests_miss") or a.get("tests") or "",
        "files": {"patch": "patch.diff", "demonstration": demo},
        "what_was_run": [
            "scratch copy of /repo outside /repo and /verif; `python demo.py` on the unchanged copy (must exit 0)",
            "`git apply patch.diff` in the copy; `python demo.py` again (must exit non-zero)",
            "the repository's pinned test suite on the changed copy (must give the baseline result: 40 passed, 1 known failure test_chk2plt)",
            "bin/seedcheck.sh %s (registered quick check of the property against the changed copy; must exit 1 with a VIOLATION line)" % sid],
        "confirmation_record": conf,
        "detected_by": det,
    }
    json.dump(meta, open(os.path.join(d, "meta.json"), "w"), indent=1)
print("meta.json written")
