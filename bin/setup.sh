#!/bin/bash
# Idempotent, offline: builds /verif/.venv (python 3.12 from /venv's interpreter) with the verification
# wheels from the local wheelhouse and a .pth that exposes /venv's site-packages (numpy, scipy, cantera,
# and the editable install of amr_kitchen -> /repo).
set -e
HERE="$(cd "$(dirname "$0")/.." && pwd)"
V="$HERE/.venv"
export PIP_NO_INDEX=1 PIP_DISABLE_PIP_VERSION_CHECK=1
if [ ! -x "$V/bin/python" ] || ! "$V/bin/python" -c "import z3, cvc5, icontract, numpy, amr_kitchen" >/dev/null 2>&1; then
  rm -rf "$V"
  /venv/bin/python -m venv "$V"
  "$V/bin/pip" install -q --no-index --find-links /opt/veriftools/wheels z3-solver cvc5 icontract deal crosshair-tool hypothesis jsonschema >/dev/null
  SP="$("$V/bin/python" -c 'import sysconfig; print(sysconfig.get_paths()["purelib"])')"
  echo "import site; site.addsitedir('/venv/lib/python3.12/site-packages')" > "$SP/_repo_overlay.pth"
fi
"$V/bin/python" -c "import z3, cvc5, icontract, numpy, amr_kitchen; print('verif venv ok', z3.get_version_string())"
