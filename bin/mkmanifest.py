#!/usr/bin/env python3
"""Regenerates MANIFEST.json from props/*.py metadata (MANIFEST dict in each module) + the not_applicable list."""
import importlib, json, os, sys
ROOT = os.path.dirname(os.path.dirname(os.path.abspath(__file__)))
sys.path.insert(0, ROOT)
ALL = [f"C{i:02d}" for i in range(1, 21)]
checks, na = [], []
meta = json.load(open(os.path.join(ROOT, "props", "manifest_meta.json")))
for pid in ALL:
    m = meta.get(pid)
    if not m or not m.get("claimed"):
        na.append({"property_id": pid, "reason": (m or {}).get("reason", "check not built yet in this round (no claim made)")})
        continue
    checks.append({
        "property_id": pid,
        "quick_cmd": f"bin/vcheck {pid} --tier quick",
        "thorough_cmd": f"bin/vcheck {pid} --tier thorough",
        "evidence_file": f"/verif/evidence/{pid}.json",
        "replay_cmd_template": f"bin/vcheck {pid} --replay {{path}}",
        "engine": "pyvc",
        "level_claimed": {"category": "proof", "text": m["text"], "design_ref": m.get("design_ref", "DESIGN.md section 3")},
        "level_note": m["note"],
        "technique": m.get("technique", "contract-based deductive verification: VC generation over the real Python AST (PyVC) discharged by z3/cvc5; bounded run-time contracts as labelled stand-in"),
    })
man = {
    "version": 1,
    "setup_cmd": "bin/setup.sh",
    "hooks": {"guard": "AMR_KITCHEN_VERIF",
              "enable": "none: contracts are sidecar files under /verif, the replay harness patches from outside; no line of /repo depends on the guard",
              "baseline_off_cmd": "cd /repo && /venv/bin/python -m pytest -ra -q -p no:cacheprovider --timeout=900 --continue-on-collection-errors",
              "source_commits": [], "add_only": True},
    "engines": [{"name": "pyvc", "path": "pyvc/", "serves_properties": [c["property_id"] for c in checks],
                 "kind_free_text": "home-built VC generator: symbolic execution of the real AST of /repo functions against sidecar contracts (contracts/, props/), obligations discharged by z3 5.1 then cvc5; counter-models replayed on the real code through a synthetic plotfile generator and an independent oracle reader (replay/)"}],
    "checks": checks,
    "not_applicable": na,
    "notes": "See DESIGN.md. Unguarded 'fix:' commits in /repo are listed in known_findings.json as fixed entries.",
}
json.dump(man, open(os.path.join(ROOT, "MANIFEST.json"), "w"), indent=1)
print("claimed:", [c["property_id"] for c in checks])
