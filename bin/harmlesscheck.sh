#!/bin/bash
# harmlesscheck.sh [Cxx ...] [--tier quick|thorough]
# The converse of seedcheck.sh: for every kept BEHAVIOUR-PRESERVING change /verif/harmless/<id>/patch.diff (refactorings of the
# code a property is anchored in, made by fresh sub-agents and confirmed identical in behaviour) copy /repo's working tree to a
# scratch directory, apply the change, run the registered check of that property against the copy and require that it does NOT
# raise an alarm: exit 0, no VIOLATION line (DEGRADED lines - proof layer undecided on restructured code - are allowed and
# counted).  Records harmless/<id>/result_<tier>.json.  Exit 0 iff no check raised an alarm or crashed.
HERE="$(cd "$(dirname "$0")/.." && pwd)"; cd "$HERE"
tier=quick; ids=()
while [ $# -gt 0 ]; do case "$1" in --tier) tier=$2; shift 2;; *) ids+=("$1"); shift;; esac; done
[ ${#ids[@]} -eq 0 ] && ids=($(ls harmless | sort))
bin/setup.sh >/dev/null 2>&1
bad=0
for id in "${ids[@]}"; do
  d="$HERE/harmless/$id"; prop=$(echo "$id" | cut -c1-3)
  [ -f "$d/patch.diff" ] || { echo "$id: no patch"; bad=1; continue; }
  sc=$(mktemp -d /var/tmp/harmless.XXXXXX)
  mkdir -p "$sc/repo" "$sc/out"
  (cd /repo && tar --exclude=.git --exclude=test/plt_tmp -cf - .) | (cd "$sc/repo" && tar xf -)
  if ! (cd "$sc/repo" && git init -q . 2>/dev/null; git apply "$d/patch.diff"); then echo "$id: PATCH DOES NOT APPLY"; bad=1; rm -rf "$sc"; continue; fi
  t0=$(date +%s)
  VERIF_REPO="$sc/repo" VERIF_OUT="$sc/out" bin/vcheck "$prop" --tier "$tier" > "$sc/log" 2>/dev/null; rc=$?
  t1=$(date +%s)
  "$HERE/.venv/bin/python" - "$id" "$prop" "$tier" "$rc" "$sc" "$d" $((t1-t0)) <<'PY'
import json, sys, os
id_, prop, tier, rc, sc, d, secs = sys.argv[1:]
log = open(os.path.join(sc, "log")).read()
vio = [l for l in log.splitlines() if l.startswith("VIOLATION")]
deg = [l for l in log.splitlines() if l.startswith("DEGRADED")]
err = [l for l in log.splitlines() if l.startswith("CHECKER-ERROR")]
summ = [l for l in log.splitlines() if l.startswith("[" + prop + "]")]
out = {"change": id_, "property": prop, "tier": tier, "exit": int(rc), "seconds": int(secs), "quiet": int(rc) == 0 and not vio,
       "violations": [v.replace(sc + "/out", "<out>")[:300] for v in vio][:12], "degraded": [x[:240] for x in deg][:20],
       "errors": [x[:240] for x in err][:5], "summary": summ[-1] if summ else ""}
json.dump(out, open(os.path.join(d, f"result_{tier}.json"), "w"), indent=1)
print(f"{id_}: exit={rc} quiet={out['quiet']} violations={len(vio)} degraded={len(deg)} {secs}s  {out['summary'][:140]}")
for v in vio[:6]:
    print("    " + v.replace(sc + "/out", "<out>")[:260])
PY
  { [ "$rc" = 0 ] && ! grep -q "^VIOLATION" "$sc/log"; } || bad=1
  if [ "$rc" != 0 ]; then mkdir -p "$d/last_replays"; cp -r "$sc/out/replays/$prop/." "$d/last_replays/" 2>/dev/null; fi
  rm -rf "$sc"
done
exit $bad
