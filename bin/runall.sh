#!/bin/bash
# runs every claimed check (quick by default) and validates manifest + evidence
cd "$(dirname "$0")/.."
TIER=${1:-quick}
rc=0
for p in $(.venv/bin/python -c "import json;print(' '.join(c['property_id'] for c in json.load(open('MANIFEST.json'))['checks']))"); do
  out=$(bin/vcheck $p --tier $TIER 2>/dev/null); r=$?
  echo "$out" | tail -3
  [ $r -ne 0 ] && { echo "!! $p exit $r"; rc=1; }
done
.venv/bin/python - <<'PY'
import json, jsonschema
m=json.load(open('MANIFEST.json')); jsonschema.validate(m, json.load(open('/root/.vp/MANIFEST.schema.json')))
es=json.load(open('/root/.vp/EVIDENCE.schema.json'))
for c in m['checks']:
    e=json.load(open(c['evidence_file'])); jsonschema.validate(e, es)
    assert e['level']==c['level_claimed']['category'], (c['property_id'], e['level'])
    assert e['coverage']['obligations']==e['coverage']['discharged']>0, c['property_id']
print('manifest+evidence valid for', len(m['checks']), 'checks')
PY
exit $rc
