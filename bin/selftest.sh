#!/bin/bash
# differential self-test of the executor and the library models against CPython + numpy (see selftest/selftest.py)
HERE="$(cd "$(dirname "$0")/.." && pwd)"; cd "$HERE"
bin/setup.sh >/dev/null 2>&1
PYTHONPATH="$HERE" PYTHONDONTWRITEBYTECODE=1 .venv/bin/python -m selftest.symbolic 2>/dev/null || exit 1
PYTHONPATH="$HERE" PYTHONDONTWRITEBYTECODE=1 exec .venv/bin/python -m selftest.selftest "$@" 2>/dev/null
